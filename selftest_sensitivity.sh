#!/bin/bash
# Sensitivity self-test: for every *fixed* finding, take the repair back out of /repo's
# working tree (reverse-apply of the fix commit), rebuild, and require that the finding's
# replay fails again; then restore the tree. Exit 1 if a reverted repair goes undetected.
cd "$(dirname "$0")" || exit 2
[ -z "$(git -C /repo status --porcelain --untracked-files=no)" ] || { echo "/repo has local changes; refusing"; exit 2; }
bad=0
python3 - <<'PY' > /tmp/.sens_list
import json
for f in json.load(open('/verif/known_findings.json'))['findings']:
    if f['status']=='fixed': print(f['id'], f['commit'], f['replay'], f['property'])
PY
while read id commit replay prop; do
  if ! git -C /repo show "$commit" -- . ':!*/tests/*' | git -C /repo apply -R --check 2>/dev/null; then
     echo "SKIP $id: fix $commit does not reverse-apply cleanly on HEAD (later changes build on it)"; continue; fi
  git -C /repo show "$commit" | git -C /repo apply -R
  if ./check build >/dev/null 2>&1; then
     out=$(./sim/target/release/nervus-sim replay "/verif/$replay" 2>&1 | tail -1)
     case "$out" in VIOLATION*) echo "DETECTED $id ($prop): reverting $commit makes $replay fail";; *) echo "MISSED   $id ($prop): reverting $commit: $out"; bad=1;; esac
  else echo "SKIP $id: tree without $commit does not build"; fi
  git -C /repo checkout -- .
done < /tmp/.sens_list
./check build >/dev/null 2>&1
exit $bad
