#!/bin/bash
# ./sweep.sh "<ids>" "<seeds>" [tier]   — run checks over several master seeds; print non-clean runs
cd "$(dirname "$0")" && ./check build || exit 2
ids="${1:-$(./sim/target/release/nervus-sim list)}"; seeds="${2:-1 2 3 4 5}"; tier="${3:-quick}"
bad=0
for id in $ids; do for s in $seeds; do
  out=$(VERIF_SEED=$s ./sim/target/release/nervus-sim check $id $tier 2>&1); rc=$?
  if [ $rc -ne 0 ]; then bad=1; echo "== $id seed=$s rc=$rc"; echo "$out" | grep -E "VIOLATION|class=|HARNESS|panic" | cut -c1-400 | head -8; fi
done; done
[ $bad -eq 0 ] && echo "sweep clean: ids=[$ids] seeds=[$seeds] tier=$tier"
exit $bad
