#!/bin/bash
# ./confirm_seeded.sh <ID> <demo-file-relative-dest> <cargo test args...>
# Confirms in the scratch worktree /tmp/wt-<ID>: the patch applies to a clean checkout, the
# demo passes without it and fails with it, and the existing suite still passes with it.
id="$1"; dest="$2"; shift 2
wt=/tmp/wt-$id; sd=/tmp/seeded-$id
cd $wt || exit 2
git checkout -q -- . || exit 2
cp "$sd/$(basename $dest)" "$wt/$dest" || exit 2
export CARGO_TARGET_DIR=$wt/target CARGO_NET_OFFLINE=true
echo "== demo WITHOUT patch (must pass)"; cargo test --offline "$@" 2>&1 | grep -E "^test result|FAILED|panicked" | head -5
git apply "$sd/patch.diff" || { echo "PATCH DOES NOT APPLY"; exit 1; }
echo "== demo WITH patch (must fail)"; cargo test --offline "$@" 2>&1 | grep -E "^test result|FAILED|panicked" | head -5
rm -f "$wt/$dest"
echo "== suite WITH patch"; cargo test --workspace --no-fail-fast --offline > $sd/confirm-suite.log 2>&1
grep -E "^test result" $sd/confirm-suite.log | awk '{p+=$4; f+=$6} END {print "passed",p,"failed",f}'; grep -E "^test .* FAILED|^error: .* target" $sd/confirm-suite.log | head -5; grep -A3 "targets failed\|target failed" $sd/confirm-suite.log | head -6
git checkout -q -- .
