//! L2: statement-level histories through the C API. A template grammar whose
//! every template has a direct model function — just enough Cypher to drive
//! transaction-level properties (this is not a reference Cypher evaluator).

use crate::capi::{CDb, CTxn};
use crate::prng::Rng;
use serde::{Deserialize, Serialize};
use std::collections::{BTreeMap, BTreeSet};

pub const L2_LABELS: [&str; 3] = ["P", "Q", "R"];
pub const L2_TYPES: [&str; 2] = ["T", "U"];
pub const L2_KEYS: [&str; 3] = ["a", "b", "c"];

#[derive(Serialize, Deserialize, Clone, Debug, PartialEq, Eq, PartialOrd, Ord)]
pub enum JVal {
    Int(i64),
    Str(String),
    Bool(bool),
}

impl JVal {
    pub fn lit(&self) -> String {
        match self {
            JVal::Int(i) => i.to_string(),
            JVal::Str(s) => format!("'{s}'"),
            JVal::Bool(b) => b.to_string(),
        }
    }
    pub fn json(&self) -> serde_json::Value {
        match self {
            JVal::Int(i) => serde_json::json!(i),
            JVal::Str(s) => serde_json::json!(s),
            JVal::Bool(b) => serde_json::json!(b),
        }
    }
}

#[derive(Serialize, Deserialize, Clone, Debug, PartialEq)]
pub enum SetVal {
    Lit(JVal),
    /// n.k = n.k + 1 (generated only when the property is an integer)
    Incr,
    /// n.k = null (removes the property)
    Null,
}

#[derive(Serialize, Deserialize, Clone, Debug, PartialEq)]
pub enum Stmt {
    CreateNode { id: i64, label: Option<String>, props: BTreeMap<String, JVal> },
    CreateEdge { a: i64, b: i64, t: String, props: BTreeMap<String, JVal> },
    SetProp { id: i64, key: String, val: SetVal },
    SetMapMerge { id: i64, props: BTreeMap<String, JVal> },
    AddLabel { id: i64, label: String },
    RemoveLabel { id: i64, label: String },
    RemoveProp { id: i64, key: String },
    DeleteEdge { a: i64, t: String, b: i64 },
    DeleteNode { id: i64 },
    DetachDelete { id: i64 },
    Merge { label: String, id: i64, on_create: (String, JVal), on_match: (String, JVal) },
    /// UNWIND ids AS x CREATE (:label {id: x, ok: <fails at row fail_at>})
    UnwindCreate { label: String, ids: Vec<i64>, fail_at: Option<usize> },
    /// UNWIND ids AS x MATCH (n {id: x}) SET n.key = <fails at row fail_at>
    UnwindSet { ids: Vec<i64>, key: String, val: i64, fail_at: Option<usize> },
    /// UNWIND ids AS x MATCH (n {id: x}) DELETE n   (fails at the first connected node)
    UnwindDelete { ids: Vec<i64> },
}

fn props_lit(id: Option<i64>, props: &BTreeMap<String, JVal>) -> String {
    let mut parts: Vec<String> = Vec::new();
    if let Some(id) = id {
        parts.push(format!("id: {id}"));
    }
    for (k, v) in props {
        parts.push(format!("{k}: {}", v.lit()));
    }
    if parts.is_empty() { String::new() } else { format!(" {{{}}}", parts.join(", ")) }
}

impl Stmt {
    pub fn kind(&self) -> &'static str {
        match self {
            Stmt::CreateNode { .. } => "create_node",
            Stmt::CreateEdge { .. } => "create_edge",
            Stmt::SetProp { .. } => "set_prop",
            Stmt::SetMapMerge { .. } => "set_map_merge",
            Stmt::AddLabel { .. } => "add_label",
            Stmt::RemoveLabel { .. } => "remove_label",
            Stmt::RemoveProp { .. } => "remove_prop",
            Stmt::DeleteEdge { .. } => "delete_edge",
            Stmt::DeleteNode { .. } => "delete_node",
            Stmt::DetachDelete { .. } => "detach_delete",
            Stmt::Merge { .. } => "merge",
            Stmt::UnwindCreate { .. } => "unwind_create",
            Stmt::UnwindSet { .. } => "unwind_set",
            Stmt::UnwindDelete { .. } => "unwind_delete",
        }
    }

    pub fn cypher(&self) -> String {
        match self {
            Stmt::CreateNode { id, label, props } => {
                let l = label.as_ref().map(|l| format!(":{l}")).unwrap_or_default();
                format!("CREATE ({l}{})", props_lit(Some(*id), props))
            }
            Stmt::CreateEdge { a, b, t, props } => {
                format!("MATCH (x {{id: {a}}}), (y {{id: {b}}}) CREATE (x)-[:{t}{}]->(y)", props_lit(None, props))
            }
            Stmt::SetProp { id, key, val } => {
                let rhs = match val {
                    SetVal::Lit(v) => v.lit(),
                    SetVal::Incr => format!("n.{key} + 1"),
                    SetVal::Null => "null".to_string(),
                };
                format!("MATCH (n {{id: {id}}}) SET n.{key} = {rhs}")
            }
            Stmt::SetMapMerge { id, props } => {
                format!("MATCH (n {{id: {id}}}) SET n +={}", props_lit(None, props))
            }
            Stmt::AddLabel { id, label } => format!("MATCH (n {{id: {id}}}) SET n:{label}"),
            Stmt::RemoveLabel { id, label } => format!("MATCH (n {{id: {id}}}) REMOVE n:{label}"),
            Stmt::RemoveProp { id, key } => format!("MATCH (n {{id: {id}}}) REMOVE n.{key}"),
            Stmt::DeleteEdge { a, t, b } => format!("MATCH (x {{id: {a}}})-[r:{t}]->(y {{id: {b}}}) DELETE r"),
            Stmt::DeleteNode { id } => format!("MATCH (n {{id: {id}}}) DELETE n"),
            Stmt::DetachDelete { id } => format!("MATCH (n {{id: {id}}}) DETACH DELETE n"),
            Stmt::Merge { label, id, on_create, on_match } => format!(
                "MERGE (n:{label} {{id: {id}}}) ON CREATE SET n.{} = {} ON MATCH SET n.{} = {}",
                on_create.0,
                on_create.1.lit(),
                on_match.0,
                on_match.1.lit()
            ),
            Stmt::UnwindCreate { label, ids, fail_at } => {
                let list: Vec<String> = ids.iter().map(|i| i.to_string()).collect();
                let ok = match fail_at {
                    Some(k) => format!("CASE WHEN x = {} THEN toBoolean(1) ELSE true END", ids[*k]),
                    None => "true".to_string(),
                };
                format!("UNWIND [{}] AS x CREATE (:{label} {{id: x, ok: {ok}}})", list.join(", "))
            }
            Stmt::UnwindSet { ids, key, val, fail_at } => {
                let list: Vec<String> = ids.iter().map(|i| i.to_string()).collect();
                let rhs = match fail_at {
                    Some(k) => format!("CASE WHEN x = {} THEN toBoolean(1) ELSE {val} END", ids[*k]),
                    None => val.to_string(),
                };
                format!("UNWIND [{}] AS x MATCH (n {{id: x}}) SET n.{key} = {rhs}", list.join(", "))
            }
            Stmt::UnwindDelete { ids } => {
                let list: Vec<String> = ids.iter().map(|i| i.to_string()).collect();
                format!("UNWIND [{}] AS x MATCH (n {{id: x}}) DELETE n", list.join(", "))
            }
        }
    }
}

#[derive(Clone, Debug, Default, PartialEq, Eq)]
pub struct L2Node {
    pub labels: BTreeSet<String>,
    pub props: BTreeMap<String, JVal>,
}

#[derive(Clone, Debug, Default, PartialEq, Eq)]
pub struct L2Model {
    pub nodes: BTreeMap<i64, L2Node>,
    /// (a, type, b) -> one property map per parallel relationship (sorted)
    pub edges: BTreeMap<(i64, String, i64), Vec<BTreeMap<String, JVal>>>,
}

impl L2Model {
    pub fn connected(&self, id: i64) -> bool {
        self.edges.keys().any(|(a, _, b)| *a == id || *b == id)
    }

    /// Apply one statement; `Err` = the statement must fail and have no effect.
    pub fn apply(&mut self, s: &Stmt) -> Result<(), String> {
        match s {
            Stmt::CreateNode { id, label, props } => {
                let mut n = L2Node::default();
                if let Some(l) = label {
                    n.labels.insert(l.clone());
                }
                n.props = props.clone();
                n.props.insert("id".into(), JVal::Int(*id));
                self.nodes.insert(*id, n);
            }
            Stmt::CreateEdge { a, b, t, props } => {
                if self.nodes.contains_key(a) && self.nodes.contains_key(b) {
                    let v = self.edges.entry((*a, t.clone(), *b)).or_default();
                    v.push(props.clone());
                    v.sort();
                }
            }
            Stmt::SetProp { id, key, val } => {
                if let Some(n) = self.nodes.get_mut(id) {
                    match val {
                        SetVal::Lit(v) => {
                            n.props.insert(key.clone(), v.clone());
                        }
                        SetVal::Incr => match n.props.get(key) {
                            Some(JVal::Int(i)) => {
                                let v = JVal::Int(i + 1);
                                n.props.insert(key.clone(), v);
                            }
                            _ => {
                                n.props.remove(key);
                            }
                        },
                        SetVal::Null => {
                            n.props.remove(key);
                        }
                    }
                }
            }
            Stmt::SetMapMerge { id, props } => {
                if let Some(n) = self.nodes.get_mut(id) {
                    for (k, v) in props {
                        n.props.insert(k.clone(), v.clone());
                    }
                }
            }
            Stmt::AddLabel { id, label } => {
                if let Some(n) = self.nodes.get_mut(id) {
                    n.labels.insert(label.clone());
                }
            }
            Stmt::RemoveLabel { id, label } => {
                if let Some(n) = self.nodes.get_mut(id) {
                    n.labels.remove(label);
                }
            }
            Stmt::RemoveProp { id, key } => {
                if let Some(n) = self.nodes.get_mut(id) {
                    n.props.remove(key);
                }
            }
            Stmt::DeleteEdge { a, t, b } => {
                self.edges.remove(&(*a, t.clone(), *b));
            }
            Stmt::DeleteNode { id } => {
                if self.nodes.contains_key(id) {
                    if self.connected(*id) {
                        return Err("delete of a connected node without DETACH".into());
                    }
                    self.nodes.remove(id);
                }
            }
            Stmt::DetachDelete { id } => {
                if self.nodes.remove(id).is_some() {
                    self.edges.retain(|(a, _, b), _| a != id && b != id);
                }
            }
            Stmt::Merge { label, id, on_create, on_match } => {
                let found: Vec<i64> = self
                    .nodes
                    .iter()
                    .filter(|(_, n)| n.labels.contains(label) && n.props.get("id") == Some(&JVal::Int(*id)))
                    .map(|(k, _)| *k)
                    .collect();
                if found.is_empty() {
                    let mut n = L2Node::default();
                    n.labels.insert(label.clone());
                    n.props.insert("id".into(), JVal::Int(*id));
                    n.props.insert(on_create.0.clone(), on_create.1.clone());
                    self.nodes.insert(*id, n);
                } else {
                    for k in found {
                        self.nodes.get_mut(&k).unwrap().props.insert(on_match.0.clone(), on_match.1.clone());
                    }
                }
            }
            Stmt::UnwindCreate { label, ids, fail_at } => {
                if fail_at.is_some() {
                    return Err("row evaluation fails".into());
                }
                for id in ids {
                    let mut n = L2Node::default();
                    n.labels.insert(label.clone());
                    n.props.insert("id".into(), JVal::Int(*id));
                    n.props.insert("ok".into(), JVal::Bool(true));
                    self.nodes.insert(*id, n);
                }
            }
            Stmt::UnwindSet { ids, key, val, fail_at } => {
                if let Some(k) = fail_at
                    && self.nodes.contains_key(&ids[*k])
                {
                    return Err("row evaluation fails".into());
                }
                for id in ids {
                    if let Some(n) = self.nodes.get_mut(id) {
                        n.props.insert(key.clone(), JVal::Int(*val));
                    }
                }
            }
            Stmt::UnwindDelete { ids } => {
                if ids.iter().any(|id| self.nodes.contains_key(id) && self.connected(*id)) {
                    return Err("delete of a connected node without DETACH".into());
                }
                for id in ids {
                    self.nodes.remove(id);
                }
            }
        }
        Ok(())
    }

    pub fn digest(&self) -> u64 {
        crate::prng::fnv(&format!("{:?}{:?}", self.nodes, self.edges))
    }
}

#[derive(Serialize, Deserialize, Clone, Debug, PartialEq)]
pub enum SOp {
    Auto(Stmt),
    Txn { stmts: Vec<Stmt>, commit: bool },
    Reopen,
    Compact,
}

impl SOp {
    pub fn kind(&self) -> &'static str {
        match self {
            SOp::Auto(_) => "auto",
            SOp::Txn { commit: true, .. } => "txn",
            SOp::Txn { commit: false, .. } => "txn_rollback",
            SOp::Reopen => "reopen",
            SOp::Compact => "compact",
        }
    }
}

/// Read the whole graph back through Cypher queries of the C API.
pub fn cypher_dump(db: &CDb) -> Result<(L2Model, Vec<(String, String)>), String> {
    let mut inv = Vec::new();
    let mut m = L2Model::default();
    let rows = db.query("MATCH (n) RETURN n").map_err(|e| format!("MATCH (n): {}", e.message))?;
    for r in rows.as_array().cloned().unwrap_or_default() {
        let n = &r["n"];
        let props = n["properties"].as_object().cloned().unwrap_or_default();
        let Some(id) = props.get("id").and_then(|v| v.as_i64()) else {
            inv.push(("node_without_id".into(), format!("{n}")));
            continue;
        };
        let mut node = L2Node::default();
        for l in n["labels"].as_array().cloned().unwrap_or_default() {
            if let Some(s) = l.as_str() {
                node.labels.insert(s.to_string());
            }
        }
        for (k, v) in props {
            let jv = if let Some(i) = v.as_i64() {
                JVal::Int(i)
            } else if let Some(b) = v.as_bool() {
                JVal::Bool(b)
            } else if let Some(s) = v.as_str() {
                JVal::Str(s.to_string())
            } else {
                JVal::Str(format!("?{v}"))
            };
            node.props.insert(k, jv);
        }
        if m.nodes.insert(id, node).is_some() {
            inv.push(("duplicate_node_id".into(), format!("two nodes with id {id}")));
        }
    }
    let mut views: Vec<BTreeMap<(i64, String, i64), Vec<BTreeMap<String, JVal>>>> = Vec::new();
    for q in [
        "MATCH (x)-[r]->(y) RETURN x.id AS a, y.id AS b, r",
        "MATCH (y)<-[r]-(x) RETURN x.id AS a, y.id AS b, r",
    ] {
        let rows = db.query(q).map_err(|e| format!("{q}: {}", e.message))?;
        let mut view: BTreeMap<(i64, String, i64), Vec<BTreeMap<String, JVal>>> = BTreeMap::new();
        for r in rows.as_array().cloned().unwrap_or_default() {
            let (a, b) = (r["a"].as_i64(), r["b"].as_i64());
            let (Some(a), Some(b)) = (a, b) else {
                inv.push(("dangling_relationship".into(), format!("{q} returned {r}")));
                continue;
            };
            if !m.nodes.contains_key(&a) || !m.nodes.contains_key(&b) {
                inv.push(("dangling_relationship".into(), format!("{q} returned {r} but an endpoint is not a node")));
            }
            let t = r["r"]["rel_type"].as_str().unwrap_or("?").to_string();
            let mut props = BTreeMap::new();
            for (k, v) in r["r"]["properties"].as_object().cloned().unwrap_or_default() {
                let jv = if let Some(i) = v.as_i64() {
                    JVal::Int(i)
                } else if let Some(b) = v.as_bool() {
                    JVal::Bool(b)
                } else {
                    JVal::Str(v.as_str().map(|s| s.to_string()).unwrap_or(format!("?{v}")))
                };
                props.insert(k, jv);
            }
            let e = view.entry((a, t, b)).or_default();
            e.push(props);
            e.sort();
        }
        views.push(view);
    }
    if views[0] != views[1] {
        inv.push(("out_in_asymmetry".into(), format!("outgoing view {:?} != incoming view {:?}", views[0], views[1])));
    }
    m.edges = views.swap_remove(0);
    Ok((m, inv))
}

pub fn l2_diff(got: &L2Model, want: &L2Model) -> Vec<(String, String)> {
    let mut out = Vec::new();
    for (id, w) in &want.nodes {
        match got.nodes.get(id) {
            None => out.push(("node_missing".into(), format!("node id={id} missing"))),
            Some(g) => {
                if g.labels != w.labels {
                    out.push(("label_diff".into(), format!("node id={id}: labels {:?} want {:?}", g.labels, w.labels)));
                }
                if g.props != w.props {
                    out.push(("prop_diff".into(), format!("node id={id}: props {:?} want {:?}", g.props, w.props)));
                }
            }
        }
    }
    for id in got.nodes.keys() {
        if !want.nodes.contains_key(id) {
            out.push(("node_extra".into(), format!("node id={id} should not exist")));
        }
    }
    for (k, w) in &want.edges {
        match got.edges.get(k) {
            None => out.push(("edge_missing".into(), format!("relationship {k:?} missing"))),
            Some(g) if g != w => out.push(("edge_diff".into(), format!("relationship {k:?}: {g:?} want {w:?}"))),
            _ => {}
        }
    }
    for k in got.edges.keys() {
        if !want.edges.contains_key(k) {
            out.push(("edge_extra".into(), format!("relationship {k:?} should not exist")));
        }
    }
    out
}

#[derive(Clone, Debug, Serialize, Deserialize)]
pub struct L2Knobs {
    pub n_ops: usize,
    pub p_txn: f64,
    pub p_fail: f64,
    pub max_txn_stmts: usize,
    pub w_stmt: [u32; 14],
    pub reopen: bool,
    pub compact: bool,
    /// avoidance constraints derived from known findings
    #[serde(default)]
    pub avoid: Vec<String>,
    /// exactly one compaction, before session op number `compact_at`: add-only statements
    /// before it, no property removal after it (keeps clear of the compaction findings F06-F10)
    #[serde(default)]
    pub compact_at: Option<usize>,
}

impl L2Knobs {
    pub fn avoids(&self, a: &str) -> bool {
        self.avoid.iter().any(|x| x == a)
    }
}

impl Stmt {
    /// user-level node ids the statement refers to or creates
    pub fn ids(&self) -> Vec<i64> {
        match self {
            Stmt::CreateNode { id, .. }
            | Stmt::SetProp { id, .. }
            | Stmt::SetMapMerge { id, .. }
            | Stmt::AddLabel { id, .. }
            | Stmt::RemoveLabel { id, .. }
            | Stmt::RemoveProp { id, .. }
            | Stmt::DeleteNode { id }
            | Stmt::DetachDelete { id }
            | Stmt::Merge { id, .. } => vec![*id],
            Stmt::CreateEdge { a, b, .. } | Stmt::DeleteEdge { a, b, .. } => vec![*a, *b],
            Stmt::UnwindCreate { ids, .. } | Stmt::UnwindSet { ids, .. } | Stmt::UnwindDelete { ids } => ids.clone(),
        }
    }
}

pub struct L2Gen {
    pub next_id: i64,
    /// relationship keys ever created (never created twice, never re-created)
    pub used_edges: BTreeSet<(i64, String, i64)>,
}

fn gen_props(rng: &mut Rng, uniq: &mut i64) -> BTreeMap<String, JVal> {
    let mut m = BTreeMap::new();
    for _ in 0..rng.below(3) {
        *uniq += 1;
        let v = match rng.below(3) {
            0 => JVal::Int(*uniq),
            1 => JVal::Str(format!("s{}", *uniq)),
            _ => JVal::Bool(rng.chance(0.5)),
        };
        m.insert(rng.pick(&L2_KEYS).to_string(), v);
    }
    m
}

/// One statement valid for `m` (txn-local state), chosen by weights.
pub fn gen_stmt(rng: &mut Rng, k: &L2Knobs, m: &L2Model, g: &mut L2Gen, uniq: &mut i64, allow_fail: bool) -> Stmt {
    let ids: Vec<i64> = m.nodes.keys().copied().collect();
    let mut w = k.w_stmt;
    if ids.is_empty() {
        for (i, x) in w.iter_mut().enumerate() {
            if !matches!(i, 0 | 10 | 11) {
                *x = 0;
            }
        }
        if w[0] + w[10] + w[11] == 0 {
            w[0] = 1;
        }
    }
    if m.edges.is_empty() {
        w[7] = 0;
    }
    if ids.len() > 8 {
        w[0] = 0;
        w[11] = 0;
    }
    let pick = |rng: &mut Rng| *rng.pick(&ids);
    let fail = |rng: &mut Rng, n: usize| if allow_fail && rng.chance(k.p_fail) { Some(rng.usize_below(n)) } else { None };
    match rng.weighted(&w) {
        0 => {
            g.next_id += 1;
            Stmt::CreateNode {
                id: g.next_id,
                label: if rng.chance(0.8) { Some(rng.pick(&L2_LABELS).to_string()) } else { None },
                props: gen_props(rng, uniq),
            }
        }
        1 => {
            let (mut a, mut b, mut t) = (pick(rng), pick(rng), rng.pick(&L2_TYPES).to_string());
            for _ in 0..6 {
                if !g.used_edges.contains(&(a, t.clone(), b)) {
                    break;
                }
                a = pick(rng);
                b = pick(rng);
                t = rng.pick(&L2_TYPES).to_string();
            }
            if g.used_edges.contains(&(a, t.clone(), b)) {
                // no fresh key found: fall back to a harmless property write
                *uniq += 1;
                return Stmt::SetProp { id: a, key: "a".into(), val: SetVal::Lit(JVal::Int(*uniq)) };
            }
            g.used_edges.insert((a, t.clone(), b));
            Stmt::CreateEdge { a, b, t, props: gen_props(rng, uniq) }
        }
        2 => {
            let id = pick(rng);
            let key = rng.pick(&L2_KEYS).to_string();
            let is_int = matches!(m.nodes[&id].props.get(&key), Some(JVal::Int(_)));
            *uniq += 1;
            let val = match rng.below(4) {
                0 if is_int => SetVal::Incr,
                1 => SetVal::Null,
                _ => SetVal::Lit(JVal::Int(*uniq)),
            };
            Stmt::SetProp { id, key, val }
        }
        3 => {
            let mut props = gen_props(rng, uniq);
            if props.is_empty() {
                *uniq += 1;
                props.insert("b".into(), JVal::Int(*uniq));
            }
            Stmt::SetMapMerge { id: pick(rng), props }
        }
        4 => Stmt::AddLabel { id: pick(rng), label: rng.pick(&L2_LABELS).to_string() },
        5 => Stmt::RemoveLabel { id: pick(rng), label: rng.pick(&L2_LABELS).to_string() },
        6 => Stmt::RemoveProp { id: pick(rng), key: rng.pick(&L2_KEYS).to_string() },
        7 => {
            let ks: Vec<_> = m.edges.keys().cloned().collect();
            let (a, t, b) = rng.pick(&ks).clone();
            Stmt::DeleteEdge { a, t, b }
        }
        8 => Stmt::DeleteNode { id: pick(rng) },
        9 => Stmt::DetachDelete { id: pick(rng) },
        10 => {
            // merge on an existing key half of the time
            let label = rng.pick(&L2_LABELS).to_string();
            let existing: Vec<i64> = m.nodes.iter().filter(|(_, n)| n.labels.contains(&label)).map(|(k, _)| *k).collect();
            let id = if !existing.is_empty() && rng.chance(0.5) {
                *rng.pick(&existing)
            } else {
                g.next_id += 1;
                g.next_id
            };
            *uniq += 2;
            Stmt::Merge {
                label,
                id,
                on_create: (rng.pick(&L2_KEYS).to_string(), JVal::Int(*uniq)),
                on_match: (rng.pick(&L2_KEYS).to_string(), JVal::Int(*uniq + 1)),
            }
        }
        11 => {
            let n = rng.range(1, 4) as usize;
            let ids: Vec<i64> = (0..n)
                .map(|_| {
                    g.next_id += 1;
                    g.next_id
                })
                .collect();
            let fail_at = fail(rng, n);
            Stmt::UnwindCreate { label: rng.pick(&L2_LABELS).to_string(), ids, fail_at }
        }
        12 => {
            let n = rng.range(1, 4.min(ids.len() as u64)) as usize;
            let mut sel: Vec<i64> = Vec::new();
            while sel.len() < n {
                let id = pick(rng);
                if !sel.contains(&id) {
                    sel.push(id);
                }
            }
            *uniq += 1;
            let fail_at = fail(rng, n);
            Stmt::UnwindSet { ids: sel, key: rng.pick(&L2_KEYS).to_string(), val: *uniq, fail_at }
        }
        _ => {
            let n = rng.range(1, 3.min(ids.len() as u64)) as usize;
            let mut sel: Vec<i64> = Vec::new();
            while sel.len() < n {
                let id = pick(rng);
                if !sel.contains(&id) {
                    sel.push(id);
                }
            }
            Stmt::UnwindDelete { ids: sel }
        }
    }
}

pub fn gen_session(rng: &mut Rng, k: &L2Knobs) -> Vec<SOp> {
    let mut m = L2Model::default();
    let mut g = L2Gen { next_id: 0, used_edges: BTreeSet::new() };
    let mut uniq = 100i64;
    let mut out = Vec::new();
    let base = k;
    let mut pre = k.clone();
    for i in [3, 5, 6, 7, 8, 9, 13] {
        pre.w_stmt[i] = 0;
    }
    let mut post = k.clone();
    for i in [3, 6] {
        post.w_stmt[i] = 0;
    }
    let mut compacted = false;
    while out.len() < base.n_ops {
        if let Some(p) = base.compact_at
            && !compacted
            && out.len() >= p
        {
            out.push(SOp::Compact);
            compacted = true;
            continue;
        }
        let k: &L2Knobs = match base.compact_at {
            None => base,
            Some(_) if compacted => &post,
            Some(_) => &pre,
        };
        let r = rng.f64();
        if k.reopen && r < 0.06 {
            out.push(SOp::Reopen);
        } else if k.compact && r < 0.12 {
            out.push(SOp::Compact);
        } else if r < 0.12 + k.p_txn {
            let n = rng.range(1, k.max_txn_stmts as u64) as usize;
            let mut local = m.clone();
            let mut stmts = Vec::new();
            let independent = k.avoids("txn_read_own_writes");
            let allow_fail = !k.avoids("failing_statement_in_txn");
            let mut touched: BTreeSet<i64> = BTreeSet::new();
            // nodes that only received blind property writes (literal SET / REMOVE keyed by the
            // immutable id) so far in this transaction: such statements do not read the
            // transaction's own writes and may hit the same node again
            let mut blind: BTreeSet<i64> = BTreeSet::new();
            let is_blind = |s: &Stmt| match s {
                Stmt::SetProp { val: SetVal::Lit(_) | SetVal::Null, .. } | Stmt::RemoveProp { .. } => true,
                _ => false,
            };
            for _ in 0..n {
                let s = if independent {
                    // every statement of the transaction works on nodes that existed when the
                    // transaction began and that no earlier statement of it touched (blind
                    // property writes excepted: they see the transaction-local properties)
                    let mut visible = m.clone();
                    for id in &blind {
                        if let (Some(v), Some(l)) = (visible.nodes.get_mut(id), local.nodes.get(id)) {
                            *v = l.clone();
                        }
                    }
                    visible.nodes.retain(|id, _| !touched.contains(id));
                    visible.edges.retain(|(a, _, b), _| !touched.contains(a) && !touched.contains(b));
                    // nodes connected to a touched node keep their relationships out of sight: skip them too
                    let hidden: Vec<i64> = m
                        .edges
                        .keys()
                        .filter(|(a, _, b)| touched.contains(a) || touched.contains(b))
                        .flat_map(|(a, _, b)| [*a, *b])
                        .collect();
                    visible.nodes.retain(|id, _| !hidden.contains(id));
                    visible.edges.retain(|(a, _, b), _| !hidden.contains(a) && !hidden.contains(b));
                    gen_stmt(rng, k, &visible, &mut g, &mut uniq, allow_fail)
                } else {
                    gen_stmt(rng, k, &local, &mut g, &mut uniq, allow_fail)
                };
                if !allow_fail && local.clone().apply(&s).is_err() {
                    continue;
                }
                if independent {
                    if is_blind(&s) && s.ids().iter().all(|id| m.nodes.contains_key(id)) {
                        blind.extend(s.ids());
                    } else if s.ids().iter().any(|id| blind.contains(id)) {
                        // a reading statement on a node this transaction already wrote to
                        continue;
                    } else {
                        touched.extend(s.ids());
                    }
                } else {
                    touched.extend(s.ids());
                }
                if let Stmt::DetachDelete { id } | Stmt::DeleteNode { id } = &s {
                    // neighbours of a deleted node are affected as well
                    for (a, _, b) in m.edges.keys() {
                        if a == id || b == id {
                            touched.insert(*a);
                            touched.insert(*b);
                        }
                    }
                }
                let _ = local.apply(&s); // a failing statement has no effect on the txn-local state
                stmts.push(s);
            }
            if stmts.is_empty() {
                continue;
            }
            let commit = rng.chance(0.85);
            if commit {
                m = local;
            }
            out.push(SOp::Txn { stmts, commit });
        } else {
            let s = gen_stmt(rng, k, &m, &mut g, &mut uniq, true);
            let _ = m.apply(&s);
            out.push(SOp::Auto(s));
        }
    }
    out
}

pub enum Handle {
    Open(CDb),
    Closed,
}

/// Outcome of executing one session op: per statement (expected_ok, got_ok, error text)
pub struct SOutcome {
    pub stmts: Vec<(bool, bool, String)>,
    pub op_error: Option<String>,
}

pub fn exec_sop(db: &mut Option<CDb>, base: &std::path::Path, model: &mut L2Model, op: &SOp) -> SOutcome {
    let mut out = SOutcome { stmts: Vec::new(), op_error: None };
    match op {
        SOp::Auto(s) => {
            let mut cand = model.clone();
            let want = cand.apply(s);
            let got = db.as_ref().unwrap().exec_write(&s.cypher());
            out.stmts.push((want.is_ok(), got.is_ok(), got.as_ref().err().map(|e| e.message.clone()).unwrap_or_default()));
            if want.is_ok() && got.is_ok() {
                *model = cand;
            }
        }
        SOp::Txn { stmts, commit } => {
            let d = db.as_ref().unwrap();
            let txn: CTxn = match d.begin() {
                Ok(t) => t,
                Err(e) => {
                    out.op_error = Some(format!("begin: {}", e.message));
                    return out;
                }
            };
            let mut local = model.clone();
            for s in stmts {
                let mut cand = local.clone();
                let want = cand.apply(s);
                let got = txn.query(&s.cypher());
                out.stmts.push((want.is_ok(), got.is_ok(), got.as_ref().err().map(|e| e.message.clone()).unwrap_or_default()));
                if want.is_ok() && got.is_ok() {
                    local = cand;
                }
            }
            if *commit {
                match txn.commit() {
                    Ok(()) => *model = local,
                    Err(e) => out.op_error = Some(format!("commit: {}", e.message)),
                }
            } else if let Err(e) = txn.rollback() {
                out.op_error = Some(format!("rollback: {}", e.message));
            }
        }
        SOp::Reopen => {
            if let Some(d) = db.take()
                && let Err(e) = d.close()
            {
                out.op_error = Some(format!("close: {}", e.message));
            }
            match CDb::open(base) {
                Ok(d) => *db = Some(d),
                Err(e) => out.op_error = Some(format!("open: {}", e.message)),
            }
        }
        SOp::Compact => {
            if let Err(e) = db.as_ref().unwrap().compact() {
                out.op_error = Some(format!("compact: {}", e.message));
            }
        }
    }
    out
}
