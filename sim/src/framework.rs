//! Shared machinery of all checks: cases, violations, parallel seeded search,
//! minimisation, replay files, known findings, evidence.

use serde::{Deserialize, Serialize};
use serde_json::{Value, json};
use std::collections::{BTreeMap, BTreeSet};
use std::path::{Path, PathBuf};
use std::sync::Mutex;
use std::sync::atomic::{AtomicBool, AtomicU64, Ordering};
use std::time::Instant;

/// Root of the verification tree: `$VERIF_DIR`, else the directory this executable was built
/// in (`<root>/sim/target/release/nervus-sim`), else `/verif`.
pub fn verif_dir() -> std::path::PathBuf {
    if let Ok(d) = std::env::var("VERIF_DIR") {
        return d.into();
    }
    if let Ok(exe) = std::env::current_exe()
        && let Some(root) = exe.ancestors().nth(4)
        && root.join("known_findings.json").exists()
    {
        return root.to_path_buf();
    }
    "/verif".into()
}

#[derive(Serialize, Deserialize, Clone, Debug, Default)]
pub struct Case {
    pub property: String,
    /// sub-configuration of the check that produced the case
    pub config: String,
    pub seed: u64,
    #[serde(default)]
    pub knobs: Value,
    /// the generated operations (shape depends on the configuration)
    #[serde(default)]
    pub ops: Vec<Value>,
    /// further generated inputs (fault plans, thread programs, clock regime ...)
    #[serde(default)]
    pub params: Value,
    /// pins one point of the enumerated fault space (crash position + variant ...)
    #[serde(default)]
    pub focus: Option<Value>,
    /// recorded scheduler decisions (replay follows them instead of the PRNG)
    #[serde(default)]
    pub schedule: Option<Vec<u16>>,
    /// violation class this replay file is expected to reproduce
    #[serde(default)]
    pub signature: Option<String>,
    #[serde(default)]
    pub detail: Option<String>,
}

#[derive(Clone, Debug)]
pub struct Viol {
    /// discrepancy class (stable across runs, used as signature)
    pub class: String,
    pub detail: String,
    pub focus: Option<Value>,
    pub schedule: Option<Vec<u16>>,
}

#[derive(Clone, Debug, Default)]
pub struct Stats {
    pub counters: BTreeMap<String, u64>,
    pub sets: BTreeMap<String, BTreeSet<u64>>,
    pub samples: Vec<Value>,
}

impl Stats {
    pub fn inc(&mut self, k: &str) {
        *self.counters.entry(k.to_string()).or_default() += 1;
    }
    pub fn add(&mut self, k: &str, n: u64) {
        *self.counters.entry(k.to_string()).or_default() += n;
    }
    pub fn see(&mut self, set: &str, h: u64) {
        self.sets.entry(set.to_string()).or_default().insert(h);
    }
    pub fn sample(&mut self, v: Value) {
        if self.samples.len() < 3 {
            self.samples.push(v);
        }
    }
    pub fn merge(&mut self, o: Stats) {
        for (k, v) in o.counters {
            *self.counters.entry(k).or_default() += v;
        }
        for (k, v) in o.sets {
            self.sets.entry(k).or_default().extend(v);
        }
        for s in o.samples {
            if self.samples.len() < 3 {
                self.samples.push(s);
            }
        }
    }
    pub fn get(&self, k: &str) -> u64 {
        self.counters.get(k).copied().unwrap_or(0)
    }
    pub fn set_len(&self, k: &str) -> u64 {
        self.sets.get(k).map(|s| s.len() as u64).unwrap_or(0)
    }
}

#[derive(Clone, Debug, Default)]
pub struct CaseResult {
    pub viols: Vec<Viol>,
    pub stats: Stats,
    /// harness error (never a violation): exit 2
    pub harness_error: Option<String>,
}

impl CaseResult {
    pub fn viol(&mut self, class: impl Into<String>, detail: impl Into<String>) {
        self.viols.push(Viol { class: class.into(), detail: detail.into(), focus: None, schedule: None });
    }
}

#[derive(Serialize, Deserialize, Clone, Debug)]
pub struct Finding {
    pub property: String,
    pub id: String,
    /// "open" (recorded, not repaired) or "fixed"
    pub status: String,
    pub what: String,
    #[serde(default)]
    pub replay: Option<String>,
    #[serde(default)]
    pub signature: Option<String>,
    /// generator constraints that keep strict exploration away from this finding's trigger
    #[serde(default)]
    pub avoid: Vec<String>,
    #[serde(default)]
    pub commit: Option<String>,
}

#[derive(Serialize, Deserialize, Clone, Debug, Default)]
pub struct FindingsFile {
    pub findings: Vec<Finding>,
}

pub fn load_findings() -> FindingsFile {
    let p = verif_dir().join("known_findings.json");
    match std::fs::read_to_string(&p) {
        Ok(s) => serde_json::from_str(&s).unwrap_or_else(|e| {
            eprintln!("harness error: cannot parse {}: {e}", p.display());
            std::process::exit(2);
        }),
        Err(_) => FindingsFile::default(),
    }
}

pub trait Check: Sync {
    fn id(&self) -> &'static str;
    fn level(&self) -> &'static str {
        "exploration"
    }
    /// (number of cases, worker threads) per tier
    fn budget(&self, tier: &str) -> usize;
    fn gen_case(&self, seed: u64, idx: usize, tier: &str, avoid: &[String]) -> Case;
    fn run_case(&self, case: &Case) -> CaseResult;
    /// is a (reduced) case still well-formed?
    fn valid(&self, _case: &Case) -> bool {
        true
    }
    /// further reductions of a failing case beyond dropping `ops` (e.g. thread programs in `params`)
    fn shrink_candidates(&self, _case: &Case) -> Vec<Case> {
        Vec::new()
    }
    fn rule(&self) -> String;
    /// name of the Stats set whose size is `distinct_nontrivial`
    fn nontrivial_set(&self) -> &'static str;
    fn assumptions(&self) -> Vec<String>;
    fn real_vs_stub(&self) -> Value {
        json!({
            "real": ["nervusdb-api", "nervusdb-storage", "nervusdb-query", "nervusdb (facade)", "nervusdb-capi", "kernel file reads/writes on tmpfs"],
            "stub": ["durability (what survives a crash is computed from the I/O journal)", "fsync (no-op on tmpfs, journaled)"],
            "not_run": ["nervusdb-pyo3 / node bindings (they wrap the C API)", "nervusdb-cli"]
        })
    }
}

pub fn case_seed(master: u64, idx: usize) -> u64 {
    let mut r = crate::prng::Rng::new(master ^ (idx as u64).wrapping_mul(0x9E3779B97F4A7C15), "case");
    r.next_u64()
}

pub fn workers() -> usize {
    std::env::var("VERIF_WORKERS")
        .ok()
        .and_then(|s| s.parse().ok())
        .unwrap_or_else(|| std::thread::available_parallelism().map(|n| n.get()).unwrap_or(8).min(16))
}

/// What a streamed run keeps: merged statistics, one digest per case (combined in index
/// order afterwards), and only the cases that produced violations or harness errors.
pub struct StreamResult {
    pub stats: Stats,
    pub digests: Vec<u64>,
    pub flagged: Vec<(usize, Case, CaseResult)>,
    pub done: usize,
}

fn case_digest(case: &Case, r: &CaseResult) -> u64 {
    let mut digest: u64 = 0xcbf29ce484222325;
    digest = crate::prng::fnv_bytes(digest, &case.seed.to_le_bytes());
    for (k, v) in &r.stats.counters {
        digest = crate::prng::fnv_bytes(digest, k.as_bytes());
        digest = crate::prng::fnv_bytes(digest, &v.to_le_bytes());
    }
    for (k, v) in &r.stats.sets {
        digest = crate::prng::fnv_bytes(digest, k.as_bytes());
        for h in v {
            digest = crate::prng::fnv_bytes(digest, &h.to_le_bytes());
        }
    }
    for v in &r.viols {
        digest = crate::prng::fnv_bytes(digest, v.class.as_bytes());
    }
    digest
}

/// Generate and run cases 0..n on a worker pool without keeping them: statistics are merged
/// as cases finish (counters add, sets unite — order independent), per-case digests are
/// stored by index, samples are taken from the lowest indices.
pub fn run_cases_streamed(check: &dyn Check, n: usize, master_seed: u64, tier: &str, avoid: &[String], deadline: Option<Instant>) -> StreamResult {
    let next = AtomicU64::new(0);
    let stop = AtomicBool::new(false);
    struct Acc {
        stats: Stats,
        digests: Vec<u64>,
        flagged: Vec<(usize, Case, CaseResult)>,
        samples: BTreeMap<usize, Vec<Value>>,
        done: usize,
    }
    let acc = Mutex::new(Acc { stats: Stats::default(), digests: vec![0; n], flagged: Vec::new(), samples: BTreeMap::new(), done: 0 });
    std::thread::scope(|s| {
        for _ in 0..workers().min(n.max(1)) {
            s.spawn(|| {
                loop {
                    if stop.load(Ordering::Relaxed) {
                        break;
                    }
                    let i = next.fetch_add(1, Ordering::Relaxed) as usize;
                    if i >= n {
                        break;
                    }
                    if let Some(d) = deadline
                        && Instant::now() > d
                    {
                        stop.store(true, Ordering::Relaxed);
                        break;
                    }
                    let case = check.gen_case(case_seed(master_seed, i), i, tier, avoid);
                    let mut r = check.run_case(&case);
                    let dg = case_digest(&case, &r);
                    let samples = std::mem::take(&mut r.stats.samples);
                    let mut a = acc.lock().unwrap();
                    a.digests[i] = dg;
                    a.done += 1;
                    if !samples.is_empty() && (a.samples.len() < 3 || a.samples.keys().next_back().map(|k| *k > i).unwrap_or(false)) {
                        a.samples.insert(i, samples);
                        while a.samples.len() > 3 {
                            let last = *a.samples.keys().next_back().unwrap();
                            a.samples.remove(&last);
                        }
                    }
                    if !r.viols.is_empty() || r.harness_error.is_some() {
                        let st = std::mem::take(&mut r.stats);
                        a.stats.merge(st);
                        if a.flagged.len() < 5000 {
                            a.flagged.push((i, case, r));
                        }
                    } else {
                        a.stats.merge(r.stats);
                    }
                }
            });
        }
    });
    let mut a = acc.into_inner().unwrap();
    a.flagged.sort_by_key(|(i, _, _)| *i);
    for (_, v) in std::mem::take(&mut a.samples) {
        for s in v {
            if a.stats.samples.len() < 3 {
                a.stats.samples.push(s);
            }
        }
    }
    StreamResult { stats: a.stats, digests: a.digests, flagged: a.flagged, done: a.done }
}

fn same_class(r: &CaseResult, class: &str) -> Option<Viol> {
    r.viols.iter().find(|v| v.class == class).cloned()
}

/// ddmin-style reduction of `case.ops` (and of ops nested in `Txn`), keeping a
/// candidate only if it is valid and reproduces a violation of the same class.
pub fn minimise(check: &dyn Check, case: &Case, class: &str, budget: std::time::Duration) -> (Case, Viol) {
    let t0 = Instant::now();
    let mut best = case.clone();
    best.focus = None;
    best.schedule = None;
    let mut best_v = match same_class(&check.run_case(&best), class) {
        Some(v) => v,
        None => {
            // exploration without focus did not reproduce (should not happen): keep the original
            let r = check.run_case(case);
            let v = same_class(&r, class).unwrap_or(Viol {
                class: class.to_string(),
                detail: "not reproduced during minimisation".into(),
                focus: case.focus.clone(),
                schedule: case.schedule.clone(),
            });
            return (case.clone(), v);
        }
    };
    let try_case = |cand: &Case| -> Option<Viol> {
        if !check.valid(cand) {
            return None;
        }
        same_class(&check.run_case(cand), class)
    };
    // 1. drop chunks of top-level ops
    let mut chunk = best.ops.len().div_ceil(2).max(1);
    while chunk >= 1 && t0.elapsed() < budget {
        let mut i = 0;
        let mut progressed = false;
        while i < best.ops.len() && t0.elapsed() < budget {
            let mut cand = best.clone();
            let end = (i + chunk).min(cand.ops.len());
            cand.ops.drain(i..end);
            if let Some(v) = try_case(&cand) {
                best = cand;
                best_v = v;
                progressed = true;
            } else {
                i += chunk;
            }
        }
        if chunk == 1 && !progressed {
            break;
        }
        if chunk > 1 {
            chunk /= 2;
        }
    }
    // 2. drop single ops inside transactions
    let mut changed = true;
    while changed && t0.elapsed() < budget {
        changed = false;
        'outer: for i in 0..best.ops.len() {
            let inner_key = if best.ops[i].get("Txn").and_then(|t| t.get("stmts")).is_some() { "stmts" } else { "ops" };
            let inner_len = best.ops[i]
                .get("Txn")
                .and_then(|t| t.get(inner_key))
                .and_then(|o| o.as_array())
                .map(|a| a.len())
                .unwrap_or(0);
            for j in 0..inner_len {
                if t0.elapsed() >= budget {
                    break 'outer;
                }
                let mut cand = best.clone();
                if let Some(a) = cand.ops[i]["Txn"][inner_key].as_array_mut() {
                    a.remove(j);
                    if a.is_empty() {
                        cand.ops.remove(i);
                    }
                }
                if let Some(v) = try_case(&cand) {
                    best = cand;
                    best_v = v;
                    changed = true;
                    break 'outer;
                }
            }
        }
    }
    // 3. check-specific reductions (thread programs, reader counts ...)
    let mut progress = true;
    while progress && t0.elapsed() < budget {
        progress = false;
        for cand in check.shrink_candidates(&best) {
            if t0.elapsed() >= budget {
                break;
            }
            if let Some(v) = try_case(&cand) {
                best = cand;
                best_v = v;
                progress = true;
                break;
            }
        }
    }
    (best, best_v)
}

pub fn write_replay(case: &Case, v: &Viol, dir: &str) -> PathBuf {
    let mut c = case.clone();
    c.focus = v.focus.clone();
    c.schedule = v.schedule.clone();
    c.signature = Some(v.class.clone());
    c.detail = Some(v.detail.clone());
    let d = verif_dir().join(dir);
    let _ = std::fs::create_dir_all(&d);
    let cls: String = v.class.chars().map(|ch| if ch.is_ascii_alphanumeric() { ch } else { '_' }).take(60).collect();
    let p = d.join(format!("{}-{}-{}.json", case.property, cls, case.seed));
    std::fs::write(&p, serde_json::to_string_pretty(&c).unwrap()).expect("write replay");
    p
}

pub struct RunSummary {
    pub exit: i32,
}

/// Does the finding's replay still show its violation class? A replay that carries a recorded
/// schedule is bound to the exact sequence of scheduling points of the tree it was recorded
/// on; when it does not reproduce as recorded (any change to the code shifts the points), the
/// same case is searched again under up to 400 scheduler seeds before the finding counts as gone.
pub fn reproduces_with_search(owner: &dyn Check, case: &Case, f: &Finding) -> bool {
    let sig = f.signature.clone().or(case.signature.clone()).unwrap_or_default();
    let hit = |c: &Case| owner.run_case(c).viols.iter().any(|v| v.class == sig);
    if hit(case) {
        return true;
    }
    if case.schedule.is_none() {
        return false;
    }
    for k in 1..=400u64 {
        let mut c = case.clone();
        c.schedule = None;
        c.seed = case.seed.wrapping_add(k.wrapping_mul(0x9E3779B97F4A7C15));
        if hit(&c) {
            return true;
        }
    }
    false
}

/// Avoidance constraints of the open findings that still reproduce (same rule as `run_check`).
pub fn active_avoid() -> Vec<String> {
    let findings = load_findings();
    let mut avoid: BTreeSet<String> = BTreeSet::new();
    for f in findings.findings.iter().filter(|f| f.status == "open") {
        let reproduces = match &f.replay {
            Some(rp) => {
                let p = verif_dir().join(rp);
                match std::fs::read_to_string(&p).ok().and_then(|s| serde_json::from_str::<Case>(&s).ok()) {
                    Some(case) => match crate::checks::by_id(&case.property) {
                        Some(o) => reproduces_with_search(o, &case, f),
                        None => true,
                    },
                    None => true,
                }
            }
            None => true,
        };
        if reproduces {
            avoid.extend(f.avoid.iter().cloned());
        }
    }
    if let Ok(extra) = std::env::var("VERIF_AVOID") {
        avoid.extend(extra.split(',').filter(|a| !a.is_empty()).map(|a| a.to_string()));
    }
    avoid.into_iter().collect()
}

/// Child mode of the abort bisection: run cases lo..hi one after the other.
pub fn run_case_range(check: &dyn Check, tier: &str, master_seed: u64, lo: usize, hi: usize) {
    // the parent evaluated the findings once and hands the constraint list down
    let avoid = match std::env::var("VERIF_AVOID_LIST") {
        Ok(l) => l.split(',').filter(|a| !a.is_empty()).map(|a| a.to_string()).collect(),
        Err(_) => active_avoid(),
    };
    for i in lo..hi {
        let case = check.gen_case(case_seed(master_seed, i), i, tier, &avoid);
        let _ = check.run_case(&case);
    }
}

/// The child running the check died (abort / signal): find the case by bisection over
/// child processes and report it as a violation with a replay file.
pub fn locate_abort(id: &str, tier: &str, status: Option<i32>) -> i32 {
    let Some(check) = crate::checks::by_id(id) else { return 2 };
    let master_seed: u64 = std::env::var("VERIF_SEED").ok().and_then(|s| s.parse().ok()).unwrap_or(20260921);
    println!("the check process was aborted (status {status:?}); locating the case in child processes");
    unsafe { std::env::set_var("VERIF_AVOID_LIST", active_avoid().join(",")) };
    let n = check.budget(tier);
    let aborts = |lo: usize, hi: usize| -> bool {
        let st = crate::child(&["case-range", id, tier, &lo.to_string(), &hi.to_string()]);
        st != Some(0)
    };
    // 16-way search: the chunks of one round run as parallel child processes
    let (mut lo, mut hi) = (0usize, n);
    while hi - lo > 1 {
        let parts = 16.min(hi - lo);
        let step = (hi - lo).div_ceil(parts);
        let ranges: Vec<(usize, usize)> = (0..parts).map(|k| (lo + k * step, (lo + (k + 1) * step).min(hi))).filter(|(a, b)| a < b).collect();
        let results: Vec<bool> = std::thread::scope(|sc| {
            let hs: Vec<_> = ranges.iter().map(|(a, b)| sc.spawn(|| aborts(*a, *b))).collect();
            hs.into_iter().map(|h| h.join().unwrap_or(false)).collect()
        });
        match results.iter().position(|r| *r) {
            Some(k) => {
                lo = ranges[k].0;
                hi = ranges[k].1;
            }
            None => {
                eprintln!("HARNESS ERROR: the abort did not reproduce when the cases ran in child processes");
                return 2;
            }
        }
    }
    let avoid = active_avoid();
    let case = check.gen_case(case_seed(master_seed, lo), lo, tier, &avoid);
    let v = Viol {
        class: "process_abort".into(),
        detail: format!("executing this case aborts the whole process (child exit status {status:?}): failed allocation, stack overflow or abort inside the system under test"),
        focus: None,
        schedule: None,
    };
    let p = write_replay(&case, &v, "replays");
    println!("VIOLATION property={} replay={}", id, p.display());
    println!("  class=process_abort seed={} case_index={lo}", case.seed);
    1
}

/// The whole protocol of one check invocation.
pub fn run_check(check: &dyn Check, tier: &str, master_seed: u64) -> RunSummary {
    let t0 = Instant::now();
    let prop = check.id();
    let findings = load_findings();
    let mine: Vec<&Finding> = findings.findings.iter().filter(|f| f.property == prop).collect();
    let mut total = Stats::default();
    let mut known_lines = Vec::new();
    let mut avoid: BTreeSet<String> = BTreeSet::new();
    let mut harness_errors: Vec<String> = Vec::new();

    // 1. known findings: re-execute each replay; still failing => KNOWN-FINDING line
    //    (findings of *other* properties only contribute their avoidance constraints)
    for f in findings.findings.iter().filter(|f| f.status == "open") {
        let reproduces = match &f.replay {
            Some(rp) => {
                let p = verif_dir().join(rp);
                match std::fs::read_to_string(&p).ok().and_then(|s| serde_json::from_str::<Case>(&s).ok()) {
                    Some(case) => {
                        let owner = crate::checks::by_id(&case.property);
                        match owner {
                            Some(o) => reproduces_with_search(o, &case, f),
                            None => true,
                        }
                    }
                    None => {
                        harness_errors.push(format!("finding {}: replay file {} unreadable", f.id, p.display()));
                        true
                    }
                }
            }
            None => true,
        };
        if reproduces {
            for a in &f.avoid {
                avoid.insert(a.clone());
            }
            if f.property == prop {
                known_lines.push(format!("KNOWN-FINDING: property={} {} [{}]", prop, f.what, f.id));
                total.inc("known_findings_reproduced");
            }
        } else if f.property == prop {
            println!("NOTE: finding {} no longer reproduces on this tree; its avoidance constraints are lifted", f.id);
            total.inc("known_findings_stale");
        }
    }
    for f in mine.iter().filter(|f| f.status == "fixed") {
        // a fixed entry suppresses nothing; its replay must now pass
        if let Some(rp) = &f.replay {
            let p = verif_dir().join(rp);
            if let Some(case) = std::fs::read_to_string(&p).ok().and_then(|s| serde_json::from_str::<Case>(&s).ok()) {
                let r = check.run_case(&case);
                total.inc("fixed_replays_run");
                if let Some(v) = r.viols.first() {
                    println!("VIOLATION property={} replay={}", prop, p.display());
                    println!("  regression of fixed finding {}: {} :: {}", f.id, v.class, v.detail);
                    write_evidence(check, tier, master_seed, &total, t0, 1, 0, 0);
                    return RunSummary { exit: 1 };
                }
            }
        }
    }
    for l in &known_lines {
        println!("{l}");
    }
    if let Ok(extra) = std::env::var("VERIF_AVOID") {
        for a in extra.split(',').filter(|a| !a.is_empty()) {
            avoid.insert(a.to_string());
        }
    }
    let avoid: Vec<String> = avoid.into_iter().collect();

    // 2. strict exploration under the avoidance constraints
    let n = check.budget(tier);
    let wall_cap = std::env::var("VERIF_WALL_CAP_S").ok().and_then(|s| s.parse::<u64>().ok());
    let deadline = wall_cap.map(|s| t0 + std::time::Duration::from_secs(s));
    let sr = run_cases_streamed(check, n, master_seed, tier, &avoid, deadline);
    let done = sr.done;
    let mut first_viols: Vec<(Case, Viol)> = Vec::new();
    let mut classes_seen: BTreeSet<String> = BTreeSet::new();
    let mut nviol = 0u64;
    // digest of everything the run observed, in case order: two runs of the same seed must agree
    let mut digest: u64 = 0xcbf29ce484222325;
    for d in &sr.digests {
        digest = crate::prng::fnv_bytes(digest, &d.to_le_bytes());
    }
    let mut class_hist: BTreeMap<String, u64> = BTreeMap::new();
    let class_filter = std::env::var("VERIF_CLASS_FILTER").ok();
    let max_report: usize = std::env::var("VERIF_MAX_REPORT").ok().and_then(|s| s.parse().ok()).unwrap_or(4);
    total.merge(sr.stats);
    for (_, case, r) in sr.flagged {
        if let Some(e) = r.harness_error {
            harness_errors.push(format!("case seed {}: {e}", case.seed));
        }
        for v in &r.viols {
            nviol += 1;
            *class_hist.entry(v.class.clone()).or_default() += 1;
            if let Some(f) = &class_filter
                && !v.class.contains(f.as_str())
            {
                continue;
            }
            if classes_seen.insert(v.class.clone()) && first_viols.len() < max_report {
                first_viols.push((case.clone(), v.clone()));
            }
        }
    }
    total.add("cases", done as u64);

    if !harness_errors.is_empty() {
        for e in harness_errors.iter().take(10) {
            eprintln!("HARNESS ERROR: {e}");
        }
        write_evidence(check, tier, master_seed, &total, t0, nviol, done, n);
        return RunSummary { exit: 2 };
    }

    let mut exit = 0;
    for (case, v) in &first_viols {
        let (mc, mv) = if std::env::var("VERIF_NO_MINIMISE").is_ok() {
            (case.clone(), v.clone())
        } else {
            minimise(check, case, &v.class, std::time::Duration::from_secs(if tier == "quick" { 20 } else { 60 }))
        };
        let p = write_replay(&mc, &mv, "replays");
        println!("VIOLATION property={} replay={}", prop, p.display());
        println!("  class={} seed={} ops={} :: {}", mv.class, mc.seed, mc.ops.len(), truncate(&mv.detail, 600));
        exit = 1;
    }
    write_evidence(check, tier, master_seed, &total, t0, nviol, done, n);
    for (c, n) in &class_hist {
        println!("  class {c}: {n} cases");
    }
    println!("run_digest={digest:016x}");
    println!(
        "{}: {} tier, seed {}, {} cases, {} violations, {} known findings reproduced, {:.1}s",
        prop,
        tier,
        master_seed,
        done,
        nviol,
        total.get("known_findings_reproduced"),
        t0.elapsed().as_secs_f64()
    );
    RunSummary { exit }
}

pub fn truncate(s: &str, n: usize) -> String {
    if s.len() <= n {
        s.to_string()
    } else {
        let mut end = n;
        while !s.is_char_boundary(end) {
            end -= 1;
        }
        format!("{}…", &s[..end])
    }
}

#[allow(clippy::too_many_arguments)]
pub fn write_evidence(
    check: &dyn Check,
    tier: &str,
    seed: u64,
    st: &Stats,
    t0: Instant,
    viols: u64,
    done: usize,
    planned: usize,
) {
    let wall = t0.elapsed().as_secs_f64();
    let evaluations = st.get("evaluations").max(done as u64).max(1);
    let distinct = st.set_len(check.nontrivial_set());
    let mut sets = serde_json::Map::new();
    for (k, v) in &st.sets {
        sets.insert(format!("distinct_{k}"), json!(v.len()));
    }
    let mut faults = serde_json::Map::new();
    let mut probes = serde_json::Map::new();
    let mut other = serde_json::Map::new();
    for (k, v) in &st.counters {
        if let Some(f) = k.strip_prefix("fault:") {
            faults.insert(f.to_string(), json!(v));
        } else if let Some(p) = k.strip_prefix("probe:") {
            probes.insert(p.to_string(), json!(v));
        } else {
            other.insert(k.clone(), json!(v));
        }
    }
    let samples = if st.samples.is_empty() { vec![json!({"note": "no sample recorded"})] } else { st.samples.clone() };
    let ev = json!({
        "property_id": check.id(),
        "tier": tier,
        "seed": seed,
        "level": check.level(),
        "coverage": {
            "evaluations": evaluations,
            "distinct_nontrivial": distinct,
            "rule": check.rule(),
            "samples": samples,
            "simulated_runs": done,
            "planned_runs": planned,
            "runs_per_hour": if wall > 0.0 { (done as f64 / wall * 3600.0) as u64 } else { 0 },
            "simulated_io_steps": st.get("io_steps"),
            "simulated_sched_steps": st.get("sched_steps"),
            "simulated_time_ns": st.get("sim_time_ns"),
            "faults_fired": faults,
            "probes_hit": probes,
            "counters": other,
            "distinct": sets,
            "components": check.real_vs_stub(),
            "exhaustive": false
        },
        "assumptions": check.assumptions(),
        "wall_s": wall,
        "violations": viols
    });
    let d = verif_dir().join("evidence");
    let _ = std::fs::create_dir_all(&d);
    let p = d.join(format!("{}.json", check.id()));
    std::fs::write(&p, serde_json::to_string_pretty(&ev).unwrap()).expect("write evidence");
}

/// `./check <id> --replay <file>`
pub fn run_replay(path: &str) -> i32 {
    let s = match std::fs::read_to_string(path) {
        Ok(s) => s,
        Err(e) => {
            eprintln!("cannot read {path}: {e}");
            return 2;
        }
    };
    let case: Case = match serde_json::from_str(&s) {
        Ok(c) => c,
        Err(e) => {
            eprintln!("cannot parse {path}: {e}");
            return 2;
        }
    };
    let Some(check) = crate::checks::by_id(&case.property) else {
        eprintln!("unknown property {}", case.property);
        return 2;
    };
    let r = check.run_case(&case);
    if let Some(e) = r.harness_error {
        eprintln!("HARNESS ERROR: {e}");
        return 2;
    }
    let want = case.signature.clone().unwrap_or_default();
    let mut hit = false;
    for v in &r.viols {
        println!("violation class={} :: {}", v.class, truncate(&v.detail, 2000));
        if v.class == want || want.is_empty() {
            hit = true;
        }
    }
    if hit {
        println!("VIOLATION property={} replay={}", case.property, path);
        1
    } else if r.viols.is_empty() {
        println!("replay {path}: no violation (expected class {want:?})");
        0
    } else {
        println!("replay {path}: violations of other classes than {want:?}");
        1
    }
}
