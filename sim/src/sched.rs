//! Cooperative scheduler: real OS threads, exactly one holds the baton.
//! Every intercepted synchronisation / I/O point hands the decision "who runs
//! next" to the `sched` PRNG stream. A thread whose `try_lock` fails is parked
//! here (never in the kernel) until the lock is released.

use crate::prng::Rng;
use ndb_api::verif::SyncKind;
use std::cell::Cell;
use std::collections::{BTreeMap, BTreeSet};
use std::sync::{Arc, Condvar, Mutex};
use std::time::Duration;

thread_local! {
    static SIM_TID: Cell<Option<usize>> = const { Cell::new(None) };
}

/// Panic payload used to unwind simulated threads when a run is aborted.
pub struct SimAbort;

#[derive(Clone, Copy, Debug, PartialEq, Eq)]
enum TStatus {
    NotStarted,
    Runnable,
    Blocked { addr: usize },
    Finished,
}

#[derive(Clone, Debug, serde::Serialize, serde::Deserialize, PartialEq)]
pub enum SchedMode {
    /// keep the current thread with probability 1-p_switch, else uniform among eligible
    Random { p_switch_permille: u32 },
    /// PCT: random priorities, `depth` priority-change points within `est_steps`
    Pct { depth: u32, est_steps: u64 },
}

#[derive(Debug, Clone, PartialEq)]
pub enum Outcome {
    Completed,
    Deadlock(String),
    StepCap,
    ReplayDiverged(String),
}

struct State {
    threads: Vec<TStatus>,
    names: Vec<String>,
    current: Option<usize>,
    rng: Rng,
    mode: SchedMode,
    prio: Vec<u64>,
    change_points: Vec<u64>,
    steps: u64,
    step_cap: u64,
    decisions: Vec<u16>,
    replay: Option<Vec<u16>>,
    replay_pos: usize,
    aborted: Option<Outcome>,
    diverged: Option<String>,
    switches: u64,
    // lock-order observation
    held: Vec<Vec<(usize, &'static str)>>,
    pub lock_edges: BTreeMap<(String, String), BTreeSet<String>>,
    addr_name: BTreeMap<usize, &'static str>,
    lock_owner: BTreeMap<usize, Vec<usize>>,
    point_counts: BTreeMap<&'static str, u64>,
    ctx_hash: u64,
    /// threads that found an RwLock taken when asking for the write side and have not got it yet
    want_write: BTreeMap<usize, BTreeSet<usize>>,
    /// lock acquisitions attempted per lock so far in this run; rarely taken locks (publication,
    /// run list, segment list) get a higher switch probability than hot ones (pager)
    lock_uses: BTreeMap<usize, u32>,
    boost: bool,
    /// the bias towards switching at rare events is on in half of the runs (long undisturbed
    /// stretches of one thread are needed by other interleavings)
    boost_enabled: bool,
    /// this run's RwLock policy: like std's futex RwLock on Linux, no new reader is admitted
    /// while a writer waits (a second read lock on the same thread then deadlocks behind it)
    writer_pref: bool,
}

pub struct Sched {
    st: Mutex<State>,
    cv: Condvar,
}

fn short(name: &'static str) -> &'static str {
    name.rsplit("::").next().unwrap_or(name)
}

/// The engine has two locks around `()`: the writer mutex and the publication RwLock.
fn lock_name(kind: SyncKind, name: &'static str) -> &'static str {
    match (name, kind) {
        ("()", SyncKind::MutexLock) => "write_lock",
        ("()", _) => "publish_lock",
        _ => name,
    }
}

impl Sched {
    pub fn new(seed: u64, mode: SchedMode, step_cap: u64, replay: Option<Vec<u16>>) -> Arc<Sched> {
        Arc::new(Sched {
            st: Mutex::new(State {
                threads: Vec::new(),
                names: Vec::new(),
                current: None,
                rng: Rng::new(seed, "sched"),
                mode,
                prio: Vec::new(),
                change_points: Vec::new(),
                steps: 0,
                step_cap,
                decisions: Vec::new(),
                replay,
                replay_pos: 0,
                aborted: None,
                diverged: None,
                switches: 0,
                held: Vec::new(),
                lock_edges: BTreeMap::new(),
                addr_name: BTreeMap::new(),
                lock_owner: BTreeMap::new(),
                point_counts: BTreeMap::new(),
                ctx_hash: 0xcbf29ce484222325,
                want_write: BTreeMap::new(),
                lock_uses: BTreeMap::new(),
                boost: false,
                boost_enabled: Rng::new(seed, "rare-event-bias").below(2) == 0,
                writer_pref: Rng::new(seed, "rwlock-policy").below(4) != 0,
            }),
            cv: Condvar::new(),
        })
    }

    /// Register a simulated thread; returns its id. Must be called before `run`.
    pub fn register(&self, name: &str) -> usize {
        let mut st = self.st.lock().unwrap();
        st.threads.push(TStatus::NotStarted);
        st.names.push(name.to_string());
        st.held.push(Vec::new());
        let p = st.rng.next_u64() | (1 << 63);
        st.prio.push(p);
        st.threads.len() - 1
    }

    /// Called on the OS thread that embodies simulated thread `tid`, first thing.
    /// Returns when the thread is scheduled for the first time.
    pub fn enter(&self, tid: usize) {
        SIM_TID.with(|c| c.set(Some(tid)));
        let mut st = self.st.lock().unwrap();
        st.threads[tid] = TStatus::Runnable;
        self.cv.notify_all();
        st = self.wait_for_baton(st, tid);
        drop(st);
    }

    /// Called when the simulated thread's body is done (also after a panic).
    pub fn exit(&self, tid: usize) {
        let mut st = self.st.lock().unwrap();
        st.threads[tid] = TStatus::Finished;
        // release bookkeeping for locks it may still hold (after a panic)
        let held = std::mem::take(&mut st.held[tid]);
        for (addr, _) in held {
            Self::wake_waiters(&mut st, addr);
        }
        let wanted: Vec<usize> = st.want_write.iter().filter(|(_, w)| w.contains(&tid)).map(|(a, _)| *a).collect();
        for addr in wanted {
            st.want_write.get_mut(&addr).unwrap().remove(&tid);
            Self::wake_waiters(&mut st, addr);
        }
        if st.current == Some(tid) {
            st.current = None;
            if st.aborted.is_none() {
                self.pick_next(&mut st, None);
            }
        }
        SIM_TID.with(|c| c.set(None));
        self.cv.notify_all();
    }

    fn wait_for_baton<'a>(
        &'a self,
        mut st: std::sync::MutexGuard<'a, State>,
        tid: usize,
    ) -> std::sync::MutexGuard<'a, State> {
        loop {
            if st.aborted.is_some() {
                if std::thread::panicking() {
                    // already unwinding (a destructor reached a scheduling point): run freely
                    return st;
                }
                drop(st);
                std::panic::resume_unwind(Box::new(SimAbort));
            }
            if st.current == Some(tid) {
                return st;
            }
            st = self.cv.wait(st).unwrap();
        }
    }

    fn eligible(st: &State) -> Vec<usize> {
        st.threads
            .iter()
            .enumerate()
            .filter(|(_, s)| matches!(s, TStatus::Runnable))
            .map(|(i, _)| i)
            .collect()
    }

    fn wake_waiters(st: &mut State, addr: usize) {
        for s in st.threads.iter_mut() {
            if *s == (TStatus::Blocked { addr }) {
                *s = TStatus::Runnable;
            }
        }
    }

    /// Decide who runs next. `me`: the calling thread if it stays runnable.
    fn pick_next(&self, st: &mut State, me: Option<usize>) {
        let elig = Self::eligible(st);
        if elig.is_empty() {
            let unfinished: Vec<usize> = st
                .threads
                .iter()
                .enumerate()
                .filter(|(_, s)| !matches!(s, TStatus::Finished))
                .map(|(i, _)| i)
                .collect();
            if unfinished.is_empty() {
                st.current = None;
                return;
            }
            if unfinished.iter().any(|i| st.threads[*i] == TStatus::NotStarted) {
                // threads still starting up; they will pick up the baton
                st.current = None;
                return;
            }
            // every unfinished thread is parked on a lock: deadlock
            let mut desc = String::new();
            for i in &unfinished {
                if let TStatus::Blocked { addr } = st.threads[*i] {
                    let lname = st.addr_name.get(&addr).copied().unwrap_or("?");
                    let owners: Vec<String> = st
                        .lock_owner
                        .get(&addr)
                        .map(|v| v.iter().map(|t| st.names[*t].clone()).collect())
                        .unwrap_or_default();
                    let holding: Vec<&str> = st.held[*i].iter().map(|(_, n)| short(n)).collect();
                    desc.push_str(&format!(
                        "[{} waits for {} held by {:?} while holding {:?}] ",
                        st.names[*i],
                        short(lname),
                        owners,
                        holding
                    ));
                }
            }
            st.aborted = Some(Outcome::Deadlock(desc));
            st.current = None;
            return;
        }
        let choice = if let Some(rp) = &st.replay {
            match rp.get(st.replay_pos) {
                Some(c) if elig.contains(&(*c as usize)) => {
                    st.replay_pos += 1;
                    *c as usize
                }
                other => {
                    // The recorded schedule does not fit this tree any more (the code changed
                    // since the recording): note it and continue under the seeded scheduler.
                    st.diverged = Some(format!(
                        "decision {}: recorded {:?}, eligible {:?}",
                        st.replay_pos, other, elig
                    ));
                    st.replay = None;
                    elig[st.rng.usize_below(elig.len())]
                }
            }
        } else {
            match st.mode.clone() {
                SchedMode::Random { p_switch_permille } => {
                    let p = if st.boost { p_switch_permille.max(400) } else { p_switch_permille };
                    if let Some(m) = me
                        && elig.contains(&m)
                        && st.rng.below(1000) >= p as u64
                    {
                        m
                    } else {
                        elig[st.rng.usize_below(elig.len())]
                    }
                }
                SchedMode::Pct { .. } => {
                    if st.change_points.contains(&st.steps)
                        && let Some(m) = me
                    {
                        // demote the running thread below everyone
                        st.prio[m] = st.steps.min((1 << 62) - 1);
                    }
                    *elig.iter().max_by_key(|i| st.prio[**i]).unwrap()
                }
            }
        };
        st.decisions.push(choice as u16);
        if st.current != Some(choice) || me != Some(choice) {
            st.switches += 1;
            st.ctx_hash = crate::prng::fnv_bytes(st.ctx_hash, &[(choice as u8), (st.steps & 0xff) as u8]);
        }
        st.current = Some(choice);
    }

    fn tid() -> Option<usize> {
        SIM_TID.with(|c| c.get())
    }

    /// A scheduling point at a rare event (file created / renamed / removed): switch with
    /// raised probability in the runs that have the bias on.
    pub fn yield_point_rare(&self, what: &'static str) {
        if Self::tid().is_some() {
            let mut st = self.st.lock().unwrap();
            st.boost = st.boost_enabled;
        }
        self.yield_point(what);
    }

    /// A scheduling point of the current simulated thread.
    pub fn yield_point(&self, what: &'static str) {
        let Some(tid) = Self::tid() else { return };
        let mut st = self.st.lock().unwrap();
        if st.aborted.is_some() {
            drop(st);
            if std::thread::panicking() {
                return;
            }
            std::panic::resume_unwind(Box::new(SimAbort));
        }
        st.steps += 1;
        *st.point_counts.entry(what).or_default() += 1;
        if st.steps > st.step_cap {
            st.aborted = Some(Outcome::StepCap);
            self.cv.notify_all();
            drop(st);
            if std::thread::panicking() {
                return;
            }
            std::panic::resume_unwind(Box::new(SimAbort));
        }
        self.pick_next(&mut st, Some(tid));
        st.boost = false;
        if st.current != Some(tid) {
            self.cv.notify_all();
            st = self.wait_for_baton(st, tid);
        }
        drop(st);
    }

    pub fn sync_point(&self, kind: SyncKind, addr: usize, name: &'static str) {
        if Self::tid().is_none() {
            return;
        }
        let name = lock_name(kind, name);
        {
            let mut st = self.st.lock().unwrap();
            st.addr_name.entry(addr).or_insert(name);
            if matches!(kind, SyncKind::MutexLock | SyncKind::RwRead | SyncKind::RwWrite) {
                let n = st.lock_uses.entry(addr).or_default();
                *n += 1;
                let few = *n <= 12;
                st.boost = st.boost_enabled && few;
            }
        }
        let what = match kind {
            SyncKind::MutexLock => "mutex",
            SyncKind::RwRead => "rw_read",
            SyncKind::RwWrite => "rw_write",
            SyncKind::AtomicLoad => "atomic_load",
            SyncKind::AtomicStore => "atomic_store",
            SyncKind::AtomicRmw => "atomic_rmw",
        };
        self.yield_point(what);
        if kind == SyncKind::RwRead {
            self.reader_gate(addr);
        }
    }

    /// Writer preference: a reader arriving while a writer waits for `addr` queues behind it.
    fn reader_gate(&self, addr: usize) {
        let Some(tid) = Self::tid() else { return };
        let mut st = self.st.lock().unwrap();
        loop {
            if st.aborted.is_some() {
                drop(st);
                if std::thread::panicking() {
                    return;
                }
                std::panic::resume_unwind(Box::new(SimAbort));
            }
            let writer_waits = st.writer_pref && st.want_write.get(&addr).map(|w| w.iter().any(|t| *t != tid)).unwrap_or(false);
            if !writer_waits {
                return;
            }
            st.threads[tid] = TStatus::Blocked { addr };
            *st.point_counts.entry("reader_behind_waiting_writer").or_default() += 1;
            self.pick_next(&mut st, None);
            self.cv.notify_all();
            st = self.wait_for_baton(st, tid);
        }
    }

    pub fn lock_blocked(&self, kind: SyncKind, addr: usize, name: &'static str) {
        let Some(tid) = Self::tid() else {
            std::thread::yield_now();
            return;
        };
        let name = lock_name(kind, name);
        let mut st = self.st.lock().unwrap();
        if st.aborted.is_some() {
            drop(st);
            if std::thread::panicking() {
                std::thread::yield_now();
                return;
            }
            std::panic::resume_unwind(Box::new(SimAbort));
        }
        st.addr_name.entry(addr).or_insert(name);
        st.threads[tid] = TStatus::Blocked { addr };
        if kind == SyncKind::RwWrite {
            st.want_write.entry(addr).or_default().insert(tid);
        }
        *st.point_counts.entry("blocked").or_default() += 1;
        self.pick_next(&mut st, None);
        self.cv.notify_all();
        st = self.wait_for_baton(st, tid);
        drop(st);
    }

    pub fn lock_acquired(&self, kind: SyncKind, addr: usize, name: &'static str) {
        let Some(tid) = Self::tid() else { return };
        let name = lock_name(kind, name);
        let mut st = self.st.lock().unwrap();
        if kind == SyncKind::RwWrite
            && let Some(w) = st.want_write.get_mut(&addr)
        {
            w.remove(&tid);
        }
        let held_names: Vec<&'static str> = st.held[tid].iter().map(|(_, n)| *n).collect();
        let common: BTreeSet<String> = held_names.iter().map(|n| short(n).to_string()).collect();
        for h in &held_names {
            let key = (short(h).to_string(), short(name).to_string());
            match st.lock_edges.get_mut(&key) {
                Some(c) => {
                    // keep only locks common to all observations of this edge
                    c.retain(|x| common.contains(x));
                }
                None => {
                    st.lock_edges.insert(key, common.clone());
                }
            }
        }
        st.held[tid].push((addr, name));
        st.lock_owner.entry(addr).or_default().push(tid);
    }

    pub fn lock_released(&self, _kind: SyncKind, addr: usize, _name: &'static str) {
        let mut st = self.st.lock().unwrap();
        if let Some(tid) = Self::tid() {
            if let Some(pos) = st.held[tid].iter().rposition(|(a, _)| *a == addr) {
                st.held[tid].remove(pos);
            }
            if let Some(o) = st.lock_owner.get_mut(&addr)
                && let Some(p) = o.iter().position(|t| *t == tid)
            {
                o.remove(p);
            }
        }
        Self::wake_waiters(&mut st, addr);
    }

    /// Start the run: give the baton to the first chosen thread and wait until
    /// all simulated threads are finished or the run is aborted.
    pub fn run(&self, watchdog: Duration) -> Result<Outcome, String> {
        {
            let mut st = self.st.lock().unwrap();
            // wait until all registered threads have entered
            let t0 = std::time::Instant::now();
            while st.threads.iter().any(|s| *s == TStatus::NotStarted) {
                let (g, _) = self.cv.wait_timeout(st, Duration::from_millis(50)).unwrap();
                st = g;
                if t0.elapsed() > watchdog {
                    return Err("threads did not start".into());
                }
            }
            if let SchedMode::Pct { depth, est_steps } = st.mode.clone() {
                for _ in 0..depth {
                    let p = st.rng.below(est_steps.max(1));
                    st.change_points.push(p);
                }
            }
            self.pick_next(&mut st, None);
            self.cv.notify_all();
        }
        let mut last_steps = 0u64;
        let mut last_progress = std::time::Instant::now();
        let mut st = self.st.lock().unwrap();
        loop {
            let all_done = st.threads.iter().all(|s| *s == TStatus::Finished);
            if all_done {
                return Ok(st.aborted.clone().unwrap_or(Outcome::Completed));
            }
            if st.aborted.is_some() {
                // wait for threads to unwind
                self.cv.notify_all();
            }
            let (g, _) = self.cv.wait_timeout(st, Duration::from_millis(20)).unwrap();
            st = g;
            if st.steps != last_steps {
                last_steps = st.steps;
                last_progress = std::time::Instant::now();
            } else if last_progress.elapsed() > watchdog {
                let desc = format!(
                    "watchdog: no progress for {:?}; statuses {:?}; current {:?}",
                    watchdog, st.threads, st.current
                );
                st.aborted = Some(Outcome::StepCap);
                self.cv.notify_all();
                return Err(desc);
            }
        }
    }

    pub fn diverged(&self) -> Option<String> {
        self.st.lock().unwrap().diverged.clone()
    }
    pub fn decisions(&self) -> Vec<u16> {
        self.st.lock().unwrap().decisions.clone()
    }
    pub fn steps(&self) -> u64 {
        self.st.lock().unwrap().steps
    }
    pub fn switches(&self) -> u64 {
        self.st.lock().unwrap().switches
    }
    pub fn ctx_hash(&self) -> u64 {
        self.st.lock().unwrap().ctx_hash
    }
    pub fn lock_edges(&self) -> BTreeMap<(String, String), BTreeSet<String>> {
        self.st.lock().unwrap().lock_edges.clone()
    }
    pub fn point_counts(&self) -> BTreeMap<&'static str, u64> {
        self.st.lock().unwrap().point_counts.clone()
    }
}
