//! L1: storage-level histories over `GraphEngine` — generator (swarm knobs)
//! and executor that drives the engine and the reference model in lock-step.

use crate::dump::{Dump, dump_snapshot, panic_msg};
use crate::model::{KEYS, LABELS, Model, Op, RELS, TOp, Val};
use crate::prng::Rng;
use ndb_api::GraphStore;
use ndb_storage::engine::GraphEngine;
use serde::{Deserialize, Serialize};
use std::collections::BTreeMap;
use std::panic::{AssertUnwindSafe, catch_unwind};
use std::path::{Path, PathBuf};

#[derive(Clone, Debug, Serialize, Deserialize, PartialEq)]
pub struct Knobs {
    pub n_ops: usize,
    pub max_txn_ops: usize,
    /// top-level weights: txn, abandon, compact, create_index, close_reopen, drop_reopen, vacuum
    pub w_top: [u32; 7],
    /// in-txn weights: create_node, add_label, remove_label, create_edge, del_edge, del_node,
    /// set_node_prop, remove_node_prop, set_edge_prop, remove_edge_prop, set_vector
    pub w_txn: [u32; 11],
    pub big_values: bool,
    pub max_live_nodes: usize,
    /// allow DelEdge(k) followed by CreateEdge(k) inside one transaction
    pub recreate_in_txn: bool,
    /// tombstone a node without first deleting edges committed by earlier transactions
    pub bare_node_delete: bool,
    /// avoidance constraints derived from known findings (see known_findings.json)
    #[serde(default)]
    pub avoid: Vec<String>,
    /// draw property values from the small adversarial universe of the index checks
    #[serde(default)]
    pub index_universe: bool,
    /// number of labels / property keys in use (0 = all)
    #[serde(default)]
    pub n_labels: usize,
    #[serde(default)]
    pub n_keys: usize,
    /// some uncommitted transactions end in a commit that must fail (oversized value)
    #[serde(default)]
    pub failing_commits: bool,
}

impl Knobs {
    pub fn labels(&self) -> &'static [&'static str] {
        if self.n_labels == 0 { &LABELS } else { &LABELS[..self.n_labels.min(LABELS.len())] }
    }
    pub fn keys(&self) -> &'static [&'static str] {
        if self.n_keys == 0 { &KEYS } else { &KEYS[..self.n_keys.min(KEYS.len())] }
    }
}

impl Knobs {
    pub fn avoids(&self, what: &str) -> bool {
        self.avoid.iter().any(|a| a == what)
    }
}

/// Swarm: every run draws its own mix.
pub fn gen_knobs(rng: &mut Rng, avoid: &[String]) -> Knobs {
    let mut w_top = [40u32, 6, 8, 3, 5, 5, 0];
    let mut w_txn = [10u32, 4, 3, 10, 4, 3, 10, 4, 6, 3, 0];
    // switch some kinds off entirely, boost others
    for w in w_top.iter_mut().skip(1) {
        match rng.below(4) {
            0 => *w = 0,
            1 => *w *= 3,
            _ => {}
        }
    }
    for w in w_txn.iter_mut() {
        match rng.below(6) {
            0 => *w = 0,
            1 => *w *= 3,
            _ => {}
        }
    }
    if w_txn[0] == 0 && rng.chance(0.8) {
        w_txn[0] = 6; // histories without nodes are rarely interesting
    }
    let n_ops = if rng.chance(0.5) { rng.range(2, 8) } else { rng.range(8, 36) } as usize;
    Knobs {
        n_ops,
        max_txn_ops: rng.range(1, 10) as usize,
        w_top,
        w_txn,
        big_values: rng.chance(0.15),
        max_live_nodes: rng.range(3, 12) as usize,
        recreate_in_txn: rng.chance(0.5),
        bare_node_delete: rng.chance(0.5),
        avoid: avoid.to_vec(),
        index_universe: false,
        n_labels: 0,
        n_keys: 0,
        failing_commits: false,
    }
}

/// Small adversarial value universe for index checks: duplicates across nodes, 1 vs 1.0,
/// 0.0 vs -0.0, strings, booleans.
pub fn index_universe() -> Vec<Val> {
    vec![
        Val::Int(0),
        Val::Int(1),
        Val::Int(-1),
        Val::Int(42),
        Val::F(0.0f64.to_bits()),
        Val::F((-0.0f64).to_bits()),
        Val::F(1.0f64.to_bits()),
        Val::F(1.5f64.to_bits()),
        Val::Str("a".into()),
        Val::Str("b".into()),
        Val::Str(String::new()),
        Val::Bool(true),
        Val::Bool(false),
    ]
}

pub fn gen_val(rng: &mut Rng, depth: u32, big: bool, uniq: &mut u64) -> Val {
    *uniq += 1;
    let top = if depth >= 2 { 7 } else { 9 };
    match rng.below(top) {
        0 => Val::Bool(rng.chance(0.5)),
        1 => Val::Int(*uniq as i64),
        2 => Val::Int(*rng.pick(&[0i64, 1, -1, i64::MAX, i64::MIN, 1 << 53, (1 << 53) + 1, 42])),
        3 => Val::F(*rng.pick(&[
            0.0f64.to_bits(),
            (-0.0f64).to_bits(),
            1.0f64.to_bits(),
            1.5f64.to_bits(),
            f64::NAN.to_bits(),
            f64::INFINITY.to_bits(),
            f64::MIN_POSITIVE.to_bits(),
            0x7ff8_0000_0000_0001, // NaN with payload
        ])),
        4 => {
            if big && rng.chance(0.5) {
                Val::Big {
                    ch: *rng.pick(&['a', 'é', '𝄞']),
                    // around one and two blob pages (8182 data bytes per page) as well
                    len: match rng.below(8) {
                        0 => 8150 + rng.below(45) as usize,
                        1 => 16330 + rng.below(45) as usize,
                        _ => *rng.pick(&[3000usize, 8100, 8192, 9000, 20000]),
                    },
                    tag: *uniq,
                }
            } else {
                Val::Str(match rng.below(5) {
                    0 => String::new(),
                    1 => format!("v{}", *uniq),
                    2 => "naïve ☃ \u{0}nul".to_string(),
                    3 => "2020-01-01".to_string(),
                    _ => format!("s{}", rng.below(4)),
                })
            }
        }
        5 => Val::Dt(*rng.pick(&[0i64, -1, 1_600_000_000_000_000, i64::MAX])),
        6 => {
            let n = if big && rng.chance(0.3) { 9000 } else { rng.below(5) as usize };
            Val::Blob((0..n).map(|i| (i as u8).wrapping_mul(31).wrapping_add(*uniq as u8)).collect())
        }
        7 => {
            let n = rng.below(4) as usize;
            Val::List((0..n).map(|_| gen_val(rng, depth + 1, false, uniq)).collect())
        }
        _ => {
            let n = rng.below(3) as usize;
            let mut m = BTreeMap::new();
            for i in 0..n {
                m.insert(format!("m{i}"), gen_val(rng, depth + 1, false, uniq));
            }
            Val::Map(m)
        }
    }
}

/// Generator state needed by the avoidance constraints of known findings.
#[derive(Default)]
struct GenCtx {
    uniq: u64,
    next_ext: u64,
    compacted_once: bool,
    /// set by operations after which a (further) compaction would hit a known finding
    no_more_compact: bool,
    /// edge keys / (entity, key) pairs that were present at the last compaction
    compacted_edges: std::collections::BTreeSet<(u32, String, u32)>,
    compacted_node_props: std::collections::BTreeSet<(u32, String)>,
    compacted_edge_props: std::collections::BTreeSet<((u32, String, u32), String)>,
    /// history mode chosen under "label_ops_with_checkpoint": true = label-rich, no checkpointing ops
    label_rich: bool,
    created_in_txn: Vec<(u32, String, u32)>,
    deleted_in_txn: Vec<(u32, String, u32)>,
    /// nodes that were ever given a vector (committed or not)
    vector_ever: std::collections::BTreeSet<u32>,
}

/// Generate a whole history up front (it depends on the seed and the model only).
pub fn gen_history(rng: &mut Rng, k: &Knobs) -> Vec<Op> {
    gen_history_from(rng, k, &Model::default())
}

/// Generate a history that continues from `start` (e.g. a recovered database).
pub fn gen_history_from(rng: &mut Rng, k: &Knobs, start: &Model) -> Vec<Op> {
    let mut m = start.clone();
    let mut out = Vec::new();
    let max_ext = m.max_ext;
    let mut cx = GenCtx {
        next_ext: max_ext + 1000 + rng.below(1000),
        label_rich: rng.chance(0.5),
        ..Default::default()
    };
    if !start.g.nodes.is_empty() {
        // continuation: the compaction history of the start state is unknown
        cx.label_rich = false;
        cx.compacted_once = true;
    }
    let mut guard = 0;
    while out.len() < k.n_ops && guard < k.n_ops * 20 {
        guard += 1;
        let mut w = k.w_top;
        if cx.no_more_compact {
            w[2] = 0;
        }
        if k.avoids("label_ops_with_checkpoint") && cx.label_rich && !(k.index_universe && k.avoids("index_secondary_label")) {
            w[2] = 0;
            w[4] = 0;
            w[6] = 0;
        }
        if k.avoids("vacuum_after_compact") && cx.compacted_once {
            w[6] = 0;
        }
        if k.avoids("big_value_with_index") && k.big_values {
            w[3] = 0;
        }
        if w.iter().all(|x| *x == 0) {
            break;
        }
        let choice = rng.weighted(&w);
        match choice {
            0 | 1 => {
                let commit = choice == 0;
                let mut cand = m.clone();
                let n = rng.range(1, k.max_txn_ops as u64) as usize;
                let mut ops = Vec::new();
                cx.created_in_txn.clear();
                cx.deleted_in_txn.clear();
                let flag_before = cx.no_more_compact;
                for _ in 0..n {
                    if let Some(more) = gen_top(rng, k, &mut cand, &mut cx) {
                        ops.extend(more);
                    }
                }
                if !commit && k.avoids("vector_in_abandoned_txn") {
                    ops.retain(|o| !matches!(o, TOp::SetVector { .. }));
                }
                if ops.is_empty() {
                    continue;
                }
                if commit {
                    m = cand;
                } else {
                    cx.no_more_compact = flag_before;
                    if k.failing_commits && !cand.g.nodes.is_empty() && rng.chance(0.15) {
                        let live: Vec<u32> = cand.g.nodes.keys().copied().collect();
                        let target = *rng.pick(&live);
                        out.push(Op::FailingTxn { ops, target });
                        continue;
                    }
                }
                out.push(Op::Txn { ops, commit });
            }
            2 => {
                out.push(Op::Compact);
                cx.compacted_once = true;
                cx.compacted_edges = m.g.edges.keys().cloned().collect();
                cx.compacted_node_props = m
                    .g
                    .nodes
                    .iter()
                    .flat_map(|(id, n)| n.props.keys().map(move |k| (*id, k.clone())))
                    .collect();
                cx.compacted_edge_props = m
                    .g
                    .edges
                    .iter()
                    .flat_map(|(e, st)| st.props.keys().map(move |k| (e.clone(), k.clone())))
                    .collect();
            }
            3 => {
                let label = rng.pick(k.labels()).to_string();
                let prop = rng.pick(k.keys()).to_string();
                m.indexes.insert((label.clone(), prop.clone()));
                out.push(Op::CreateIndex { label, prop });
            }
            4 => out.push(Op::CloseReopen),
            5 => out.push(Op::DropReopen),
            _ => out.push(Op::Vacuum),
        }
    }
    out
}

fn gen_top(rng: &mut Rng, k: &Knobs, cand: &mut Model, cx: &mut GenCtx) -> Option<Vec<TOp>> {
    let live: Vec<u32> = cand.g.nodes.keys().copied().collect();
    let mut w = k.w_txn;
    if live.is_empty() {
        for (i, x) in w.iter_mut().enumerate() {
            if i != 0 {
                *x = 0;
            }
        }
        if w[0] == 0 {
            w[0] = 1;
        }
    }
    if live.len() >= k.max_live_nodes {
        w[0] = 0;
    }
    if cand.g.edges.is_empty() {
        w[4] = 0;
        w[8] = 0;
        w[9] = 0;
    }
    let label_poor = (k.avoids("label_ops_with_checkpoint") && !cx.label_rich)
        || (k.index_universe && k.avoids("index_secondary_label"));
    if label_poor {
        w[1] = 0;
        w[2] = 0;
    }
    if k.avoids("prop_remove_after_compact") && cx.compacted_once {
        w[7] = 0;
        w[9] = 0;
    }
    if w.iter().all(|x| *x == 0) {
        return None;
    }
    let pick_node = |rng: &mut Rng| *rng.pick(&live);
    let op = match rng.weighted(&w) {
        0 => {
            let nl = if label_poor { rng.below(2) } else { rng.below(4) } as usize;
            let mut labels: Vec<String> = Vec::new();
            for _ in 0..nl {
                let l = rng.pick(k.labels()).to_string();
                if !labels.contains(&l) {
                    labels.push(l);
                }
            }
            cx.next_ext += 1 + rng.below(3);
            TOp::CreateNode { ext: cx.next_ext, labels }
        }
        1 => TOp::AddLabel { node: pick_node(rng), label: rng.pick(k.labels()).to_string() },
        2 => {
            let node = pick_node(rng);
            let ls: Vec<String> = cand.g.nodes[&node].labels.iter().cloned().collect();
            let label = if ls.is_empty() || rng.chance(0.2) {
                rng.pick(k.labels()).to_string()
            } else {
                rng.pick(&ls).clone()
            };
            TOp::RemoveLabel { node, label }
        }
        3 => {
            let src = pick_node(rng);
            let dst = if rng.chance(0.15) { src } else { pick_node(rng) };
            let rel = rng.pick(&RELS).to_string();
            let key = (src, rel.clone(), dst);
            if cand.tainted_edges.contains(&key) {
                return None;
            }
            if cx.deleted_in_txn.contains(&key) && !k.recreate_in_txn {
                return None;
            }
            cx.created_in_txn.push(key);
            TOp::CreateEdge { src, rel, dst }
        }
        4 => {
            let keys: Vec<_> = cand.g.edges.keys().cloned().collect();
            let (src, rel, dst) = rng.pick(&keys).clone();
            let key = (src, rel.clone(), dst);
            if k.avoids("compact_after_compacted_edge_delete") && cx.compacted_edges.contains(&key) {
                cx.no_more_compact = true;
            }
            cx.deleted_in_txn.push(key);
            TOp::DelEdge { src, rel, dst }
        }
        5 => {
            if k.index_universe && k.avoids("indexed_node_delete") {
                return None;
            }
            let node = pick_node(rng);
            if k.avoids("vector_node_delete") && cx.vector_ever.contains(&node) {
                return None;
            }
            let inc = cand.incident(node);
            let mut ops = Vec::new();
            let any_new = inc.iter().any(|e| cx.created_in_txn.contains(e));
            if any_new || !k.bare_node_delete || rng.chance(0.5) {
                for (src, rel, dst) in inc {
                    cx.deleted_in_txn.push((src, rel.clone(), dst));
                    ops.push(TOp::DelEdge { src, rel, dst });
                }
            }
            ops.push(TOp::DelNode { node });
            if k.avoids("compact_after_node_delete") {
                cx.no_more_compact = true;
            }
            for o in &ops {
                cand.apply(o);
            }
            return Some(ops);
        }
        6 => {
            let node = pick_node(rng);
            let key = rng.pick(k.keys()).to_string();
            if k.avoids("compact_after_compacted_prop_overwrite")
                && cx.compacted_node_props.contains(&(node, key.clone()))
            {
                cx.no_more_compact = true;
            }
            let val = if k.index_universe {
                let mut u = index_universe();
                if k.avoids("index_mixed_numeric") {
                    // keep integers and non-integral floats apart: no value with two numeric spellings
                    u.retain(|v| !matches!(v, Val::F(b) if f64::from_bits(*b).fract() == 0.0));
                }
                rng.pick(&u).clone()
            } else {
                gen_val(rng, 0, k.big_values, &mut cx.uniq)
            };
            TOp::SetNodeProp { node, key, val }
        }
        7 => {
            if k.avoids("compact_after_prop_remove") {
                cx.no_more_compact = true;
            }
            TOp::RemoveNodeProp { node: pick_node(rng), key: rng.pick(k.keys()).to_string() }
        }
        8 => {
            let keys: Vec<_> = cand.g.edges.keys().cloned().collect();
            let (src, rel, dst) = rng.pick(&keys).clone();
            let key = rng.pick(k.keys()).to_string();
            if k.avoids("compact_after_compacted_prop_overwrite")
                && cx.compacted_edge_props.contains(&((src, rel.clone(), dst), key.clone()))
            {
                cx.no_more_compact = true;
            }
            TOp::SetEdgeProp { src, rel, dst, key, val: gen_val(rng, 0, k.big_values, &mut cx.uniq) }
        }
        9 => {
            if k.avoids("compact_after_prop_remove") {
                cx.no_more_compact = true;
            }
            let keys: Vec<_> = cand.g.edges.keys().cloned().collect();
            let (src, rel, dst) = rng.pick(&keys).clone();
            TOp::RemoveEdgeProp { src, rel, dst, key: rng.pick(k.keys()).to_string() }
        }
        _ => {
            let node = pick_node(rng);
            if k.avoids("vector_reinsert") && cx.vector_ever.contains(&node) {
                return None;
            }
            cx.vector_ever.insert(node);
            let dim = 3;
            let vec: Vec<f32> = (0..dim).map(|_| (rng.below(5) as f32) - 2.0).collect();
            TOp::SetVector { node, vec }
        }
    };
    cand.apply(&op);
    Some(vec![op])
}

// ---------------------------------------------------------------------------

/// Scratch directory on tmpfs, removed on drop.
pub struct Sandbox {
    pub dir: PathBuf,
}

static SANDBOX_CTR: std::sync::atomic::AtomicU64 = std::sync::atomic::AtomicU64::new(0);

impl Sandbox {
    pub fn new(tag: &str) -> Sandbox {
        let base = std::env::var("NERVUS_SIM_TMP").unwrap_or_else(|_| "/dev/shm".to_string());
        let n = SANDBOX_CTR.fetch_add(1, std::sync::atomic::Ordering::Relaxed);
        let dir = PathBuf::from(base).join(format!("nervus-sim-{}", std::process::id())).join(format!("{tag}-{n}"));
        let _ = std::fs::remove_dir_all(&dir);
        std::fs::create_dir_all(&dir).expect("create sandbox");
        Sandbox { dir }
    }
    pub fn ndb(&self) -> PathBuf {
        self.dir.join("g.ndb")
    }
    pub fn wal(&self) -> PathBuf {
        self.dir.join("g.wal")
    }
}

impl Drop for Sandbox {
    fn drop(&mut self) {
        let _ = std::fs::remove_dir_all(&self.dir);
    }
}

pub fn cleanup_process_tmp() {
    let base = std::env::var("NERVUS_SIM_TMP").unwrap_or_else(|_| "/dev/shm".to_string());
    let _ = std::fs::remove_dir_all(PathBuf::from(base).join(format!("nervus-sim-{}", std::process::id())));
}

#[derive(Debug, Clone)]
pub struct StepOutcome {
    pub ok: bool,
    pub err: Option<String>,
    pub panicked: bool,
}

pub struct Runner {
    pub ndb: PathBuf,
    pub wal: PathBuf,
    pub engine: Option<GraphEngine>,
    /// model state after the last acknowledged operation
    pub model: Model,
    /// candidate state of the operation in flight (== model when none)
    pub cand: Option<Model>,
}

impl Runner {
    pub fn open(dir: &Path) -> Result<Runner, String> {
        let ndb = dir.join("g.ndb");
        let wal = dir.join("g.wal");
        let engine = open_engine(&ndb, &wal)?;
        Ok(Runner { ndb, wal, engine: Some(engine), model: Model::default(), cand: None })
    }

    pub fn with_model(dir: &Path, model: Model) -> Result<Runner, String> {
        let mut r = Runner::open(dir)?;
        r.model = model;
        Ok(r)
    }

    pub fn engine(&self) -> &GraphEngine {
        self.engine.as_ref().expect("engine open")
    }

    pub fn dump(&self) -> Dump {
        let snap = self.engine().snapshot();
        let mut d = dump_snapshot(&snap, self.model.next_iid);
        if !self.model.indexes.is_empty() {
            d.inv.extend(crate::dump::index_soundness(&snap, &self.model));
        }
        d
    }

    /// Dump without the index-soundness oracle (for properties that are not about indexes).
    pub fn dump_plain(&self) -> Dump {
        let snap = self.engine().snapshot();
        dump_snapshot(&snap, self.model.next_iid)
    }

    pub fn reopen(&mut self) -> Result<(), String> {
        self.engine = None;
        self.engine = Some(open_engine(&self.ndb, &self.wal)?);
        Ok(())
    }

    /// Execute one history op on the engine and (if it succeeds) on the model.
    pub fn exec(&mut self, op: &Op) -> StepOutcome {
        let r = catch_unwind(AssertUnwindSafe(|| self.exec_inner(op)));
        match r {
            Ok(Ok(())) => StepOutcome { ok: true, err: None, panicked: false },
            Ok(Err(e)) => StepOutcome { ok: false, err: Some(e), panicked: false },
            Err(p) => {
                if p.is::<crate::sched::SimAbort>() {
                    std::panic::resume_unwind(p);
                }
                StepOutcome { ok: false, err: Some(format!("panic: {}", panic_msg(p))), panicked: true }
            }
        }
    }

    fn exec_inner(&mut self, op: &Op) -> Result<(), String> {
        match op {
            Op::Txn { ops, commit } => {
                let mut cand = self.model.clone();
                let engine = self.engine.as_ref().expect("engine open");
                let mut tx = engine.begin_write();
                for t in ops {
                    apply_top(&mut tx, t, &cand)?;
                    cand.apply(t);
                }
                if *commit {
                    cand.commits += 1;
                    self.cand = Some(cand);
                    let r = tx.commit().map_err(|e| format!("commit: {e}"));
                    let cand = self.cand.take().unwrap();
                    r?;
                    self.model = cand;
                } else {
                    drop(tx);
                }
                Ok(())
            }
            Op::FailingTxn { ops, target } => {
                let mut cand = self.model.clone();
                let engine = self.engine.as_ref().expect("engine open");
                let mut tx = engine.begin_write();
                for t in ops {
                    apply_top(&mut tx, t, &cand)?;
                    cand.apply(t);
                }
                // one value above the 1 MiB log-record limit: logging the transaction is refused
                tx.set_node_property(*target, "k0".into(), ndb_storage::property::PropertyValue::String("x".repeat(1_048_700)));
                match tx.commit() {
                    Err(_) => Ok(()),
                    Ok(()) => Err("EXPECTED-FAILURE-MISSING: commit with a value above the log-record limit succeeded".into()),
                }
            }
            Op::Compact => self.engine().compact().map_err(|e| format!("compact: {e}")),
            Op::CreateIndex { label, prop } => {
                self.engine().create_index(label, prop).map_err(|e| format!("create_index: {e}"))?;
                self.model.indexes.insert((label.clone(), prop.clone()));
                Ok(())
            }
            Op::CloseReopen => {
                let e = self.engine.take().expect("engine open");
                let r = e.checkpoint_on_close().map_err(|e| format!("close: {e}"));
                drop(e);
                let r2 = self.reopen().map_err(|e| format!("reopen after close: {e}"));
                r.and(r2)
            }
            Op::DropReopen => self.reopen().map_err(|e| format!("reopen after drop: {e}")),
            Op::Vacuum => {
                let e = self.engine.take().expect("engine open");
                let r = e.checkpoint_on_close().map_err(|e| format!("close: {e}"));
                drop(e);
                let rv = ndb_storage::vacuum::vacuum_in_place(&self.ndb, &self.wal)
                    .map(|_| ())
                    .map_err(|e| format!("vacuum: {e}"));
                let r2 = self.reopen().map_err(|e| format!("reopen after vacuum: {e}"));
                r.and(rv).and(r2)
            }
        }
    }
}

pub fn open_engine(ndb: &Path, wal: &Path) -> Result<GraphEngine, String> {
    match catch_unwind(AssertUnwindSafe(|| GraphEngine::open(ndb, wal))) {
        Ok(Ok(e)) => Ok(e),
        Ok(Err(e)) => Err(format!("open: {e}")),
        Err(p) => {
            if p.is::<crate::sched::SimAbort>() {
                std::panic::resume_unwind(p);
            }
            Err(format!("open panicked: {}", panic_msg(p)))
        }
    }
}

pub fn apply_top(
    tx: &mut ndb_storage::engine::WriteTxn<'_>,
    t: &TOp,
    cand: &Model,
) -> Result<(), String> {
    let lab = |tx: &ndb_storage::engine::WriteTxn<'_>, name: &str| -> Result<u32, String> {
        tx.get_or_create_label(name).map_err(|e| format!("get_or_create_label: {e}"))
    };
    match t {
        TOp::CreateNode { ext, labels } => {
            let first = match labels.first() {
                Some(l) => lab(tx, l)?,
                None => u32::MAX,
            };
            let iid = tx.create_node(*ext, first).map_err(|e| format!("create_node: {e}"))?;
            if iid != cand.next_iid {
                return Err(format!("iid_mismatch: create_node returned {iid}, model expects {}", cand.next_iid));
            }
            for l in labels.iter().skip(1) {
                let id = lab(tx, l)?;
                tx.add_node_label(iid, id).map_err(|e| format!("add_node_label: {e}"))?;
            }
        }
        TOp::AddLabel { node, label } => {
            let id = lab(tx, label)?;
            tx.add_node_label(*node, id).map_err(|e| format!("add_node_label: {e}"))?;
        }
        TOp::RemoveLabel { node, label } => {
            let id = lab(tx, label)?;
            tx.remove_node_label(*node, id).map_err(|e| format!("remove_node_label: {e}"))?;
        }
        TOp::CreateEdge { src, rel, dst } => {
            let r = lab(tx, rel)?;
            tx.create_edge(*src, r, *dst);
        }
        TOp::DelEdge { src, rel, dst } => {
            let r = lab(tx, rel)?;
            tx.tombstone_edge(*src, r, *dst);
        }
        TOp::DelNode { node } => tx.tombstone_node(*node),
        TOp::SetNodeProp { node, key, val } => tx.set_node_property(*node, key.clone(), val.to_pv()),
        TOp::RemoveNodeProp { node, key } => tx.remove_node_property(*node, key),
        TOp::SetEdgeProp { src, rel, dst, key, val } => {
            let r = lab(tx, rel)?;
            tx.set_edge_property(*src, r, *dst, key.clone(), val.to_pv());
        }
        TOp::RemoveEdgeProp { src, rel, dst, key } => {
            let r = lab(tx, rel)?;
            tx.remove_edge_property(*src, r, *dst, key);
        }
        TOp::SetVector { node, vec } => {
            tx.set_vector(*node, vec.clone()).map_err(|e| format!("set_vector: {e}"))?;
        }
    }
    Ok(())
}
