//! `dump`: read every storage read interface of one snapshot, cross-check the
//! interfaces against each other, and return the logical content.

use crate::model::{EdgeK, EdgeState, GraphState, KEYS, NodeState, canon};
use ndb_api::{EdgeKey, GraphSnapshot};
use std::collections::{BTreeMap, BTreeSet};
use std::panic::{AssertUnwindSafe, catch_unwind};

#[derive(Debug, Default, Clone)]
pub struct Dump {
    pub g: GraphState,
    /// invariant violations found while reading: (class, detail)
    pub inv: Vec<(String, String)>,
}

pub fn panic_msg(p: Box<dyn std::any::Any + Send>) -> String {
    if let Some(s) = p.downcast_ref::<&str>() {
        s.to_string()
    } else if let Some(s) = p.downcast_ref::<String>() {
        s.clone()
    } else {
        "non-string panic".into()
    }
}

fn guarded<T>(inv: &mut Vec<(String, String)>, what: &str, f: impl FnOnce() -> T) -> Option<T> {
    match catch_unwind(AssertUnwindSafe(f)) {
        Ok(v) => Some(v),
        Err(p) => {
            inv.push(("read_panic".into(), format!("{what}: {}", panic_msg(p))));
            None
        }
    }
}

/// `probe_upto`: ids 0..probe_upto that are not live are probed too (reads on
/// deleted nodes must not return relationships).
pub fn dump_snapshot<S: GraphSnapshot>(snap: &S, probe_upto: u32) -> Dump {
    let mut inv: Vec<(String, String)> = Vec::new();
    let mut g = GraphState::default();

    let ids: Vec<u32> = guarded(&mut inv, "nodes()", || snap.nodes().collect()).unwrap_or_default();
    let idset: BTreeSet<u32> = ids.iter().copied().collect();
    if idset.len() != ids.len() {
        inv.push(("nodes_duplicate".into(), format!("nodes() returned duplicates: {ids:?}")));
    }

    let mut rel_name_cache: BTreeMap<u32, Option<String>> = BTreeMap::new();
    let mut rel_name = |snap: &S, rel: u32| -> Option<String> {
        rel_name_cache
            .entry(rel)
            .or_insert_with(|| snap.resolve_rel_type_name(rel))
            .clone()
    };

    for &id in &idset {
        let mut ns = NodeState::default();
        if snap.is_tombstoned_node(id) {
            inv.push(("nodes_lists_tombstoned".into(), format!("nodes() lists {id} but is_tombstoned_node")));
        }
        ns.ext = snap.resolve_external(id).unwrap_or(0);
        if let Some(ls) = guarded(&mut inv, "resolve_node_labels", || snap.resolve_node_labels(id)) {
            for l in ls.unwrap_or_default() {
                if let Some(name) = snap.resolve_label_name(l) {
                    ns.labels.insert(name);
                } else if l != u32::MAX {
                    inv.push(("label_unresolvable".into(), format!("node {id}: label id {l} has no name")));
                }
            }
        }
        let props = guarded(&mut inv, "node_properties", || snap.node_properties(id))
            .flatten()
            .unwrap_or_default();
        let mut keys: BTreeSet<String> = props.keys().cloned().collect();
        for k in KEYS {
            keys.insert(k.to_string());
        }
        for k in &keys {
            let single = guarded(&mut inv, "node_property", || snap.node_property(id, k)).flatten();
            let a = single.as_ref().map(canon);
            let b = props.get(k).map(canon);
            if a != b {
                inv.push((
                    "node_property_vs_map".into(),
                    format!("node {id} key {k}: node_property={a:?} node_properties={b:?}"),
                ));
            }
        }
        for (k, v) in &props {
            ns.props.insert(k.clone(), canon(v));
        }
        g.nodes.insert(id, ns);
    }

    let mut out_ms: BTreeMap<(u32, u32, u32), u32> = BTreeMap::new();
    let mut in_ms: BTreeMap<(u32, u32, u32), u32> = BTreeMap::new();
    let probe_max = probe_upto.max(idset.iter().next_back().map(|m| m + 1).unwrap_or(0));
    for id in 0..probe_max {
        let live = idset.contains(&id);
        for dir in 0..2 {
            let what = if dir == 0 { "neighbors" } else { "incoming_neighbors" };
            let all: Vec<EdgeKey> = guarded(&mut inv, what, || {
                if dir == 0 {
                    snap.neighbors(id, None).collect()
                } else {
                    snap.incoming_neighbors(id, None).collect()
                }
            })
            .unwrap_or_default();
            if !live {
                if !all.is_empty() {
                    inv.push((
                        format!("edge_at_dead_node_{}", if dir == 0 { "out" } else { "in" }),
                        format!("{what}({id}) on a non-existing node returned {all:?}"),
                    ));
                }
                continue;
            }
            let mut by_rel: BTreeMap<u32, Vec<EdgeKey>> = BTreeMap::new();
            for e in &all {
                let anchor = if dir == 0 { e.src } else { e.dst };
                if anchor != id {
                    inv.push(("edge_wrong_anchor".into(), format!("{what}({id}) returned {e:?}")));
                }
                let other = if dir == 0 { e.dst } else { e.src };
                if !idset.contains(&other) {
                    inv.push((
                        format!("dangling_{}", if dir == 0 { "out" } else { "in" }),
                        format!("{what}({id}) returned {e:?} but node {other} does not exist"),
                    ));
                }
                by_rel.entry(e.rel).or_default().push(*e);
                let ms = if dir == 0 { &mut out_ms } else { &mut in_ms };
                *ms.entry((e.src, e.rel, e.dst)).or_default() += 1;
            }
            for (rel, want) in &by_rel {
                let typed: Vec<EdgeKey> = guarded(&mut inv, what, || {
                    if dir == 0 {
                        snap.neighbors(id, Some(*rel)).collect()
                    } else {
                        snap.incoming_neighbors(id, Some(*rel)).collect()
                    }
                })
                .unwrap_or_default();
                let mut a: Vec<(u32, u32, u32)> = typed.iter().map(|e| (e.src, e.rel, e.dst)).collect();
                let mut b: Vec<(u32, u32, u32)> = want.iter().map(|e| (e.src, e.rel, e.dst)).collect();
                a.sort();
                b.sort();
                if a != b {
                    inv.push((
                        "typed_neighbors_mismatch".into(),
                        format!("{what}({id}, Some({rel})) = {a:?} but untyped filter = {b:?}"),
                    ));
                }
            }
        }
    }
    if out_ms != in_ms {
        let only_out: Vec<_> = out_ms.iter().filter(|(k, c)| in_ms.get(*k) != Some(*c)).collect();
        let only_in: Vec<_> = in_ms.iter().filter(|(k, c)| out_ms.get(*k) != Some(*c)).collect();
        inv.push((
            "out_in_asymmetry".into(),
            format!("outgoing-only/mismatch {only_out:?}; incoming-only/mismatch {only_in:?}"),
        ));
    }

    // logical edges: from the outgoing view
    for ((src, rel, dst), count) in &out_ms {
        let Some(name) = rel_name(snap, *rel) else {
            inv.push(("rel_unresolvable".into(), format!("rel id {rel} has no name")));
            continue;
        };
        let ek = EdgeKey { src: *src, rel: *rel, dst: *dst };
        let props = guarded(&mut inv, "edge_properties", || snap.edge_properties(ek))
            .flatten()
            .unwrap_or_default();
        let mut keys: BTreeSet<String> = props.keys().cloned().collect();
        for k in KEYS {
            keys.insert(k.to_string());
        }
        for k in &keys {
            let single = guarded(&mut inv, "edge_property", || snap.edge_property(ek, k)).flatten();
            let a = single.as_ref().map(canon);
            let b = props.get(k).map(canon);
            if a != b {
                inv.push((
                    "edge_property_vs_map".into(),
                    format!("edge {ek:?} key {k}: edge_property={a:?} edge_properties={b:?}"),
                ));
            }
        }
        let key: EdgeK = (*src, name, *dst);
        let e = g.edges.entry(key).or_insert_with(EdgeState::default);
        e.count += *count;
        for (k, v) in &props {
            e.props.insert(k.clone(), canon(v));
        }
    }

    Dump { g, inv }
}


/// Soundness of property indexes against the model (completeness is the business of C15's
/// twin comparison): every id an index lookup returns for value `v` must — if the node is
/// alive — carry exactly that value. Catches index entries written by a transaction that
/// never committed (crash or I/O error between the in-place index update and the commit
/// record) and entries left behind by an update.
pub fn index_soundness<S: GraphSnapshot>(snap: &S, model: &crate::model::Model) -> Vec<(String, String)> {
    let mut out = Vec::new();
    for (label, prop) in &model.indexes {
        // candidate values: everything any node currently holds under this key, plus a few fixed probes
        let mut vals: Vec<crate::model::Val> = model.node_vals.values().filter_map(|m| m.get(prop)).cloned().collect();
        vals.extend(crate::l1::index_universe());
        let mut seen = std::collections::BTreeSet::new();
        vals.retain(|v| seen.insert(v.canon()));
        for v in vals {
            let pv = v.to_pv();
            if matches!(pv, ndb_api::PropertyValue::List(_) | ndb_api::PropertyValue::Map(_) | ndb_api::PropertyValue::Blob(_) | ndb_api::PropertyValue::DateTime(_)) {
                continue;
            }
            if let ndb_api::PropertyValue::String(s) = &pv
                && s.len() > 256
            {
                continue;
            }
            let ids = match catch_unwind(AssertUnwindSafe(|| snap.lookup_index(label, prop, &pv))) {
                Ok(r) => r.unwrap_or_default(),
                Err(p) => {
                    out.push(("index_lookup_panicked".into(), format!("lookup_index({label},{prop},{}): {}", v.canon(), panic_msg(p))));
                    continue;
                }
            };
            for id in ids {
                if !model.g.nodes.contains_key(&id) {
                    continue; // entries of deleted nodes: known finding F28, judged by C15
                }
                let have = model.node_vals.get(&id).and_then(|m| m.get(prop)).map(|x| x.canon());
                if have.as_deref() != Some(v.canon().as_str()) {
                    out.push((
                        "index_entry_without_value".into(),
                        format!("lookup_index({label},{prop},{}) returns live node {id} whose {prop} is {have:?}", v.canon()),
                    ));
                }
            }
        }
    }
    out
}
