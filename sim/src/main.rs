mod capi;
mod checks;
mod disk;
mod dump;
mod framework;
mod l1;
mod l2;
mod model;
mod prng;
mod sched;
mod world;

fn usage() -> ! {
    eprintln!("usage: nervus-sim check <ID> [quick|thorough] | replay <file> | list");
    std::process::exit(2);
}

fn main() {
    // panics inside the system under test are caught and attributed; keep stderr quiet
    std::panic::set_hook(Box::new(|info| {
        let own = info.location().map(|l| !l.file().starts_with("/repo")).unwrap_or(true);
        let abort = info.payload().is::<sched::SimAbort>();
        let cap = info.payload().downcast_ref::<&str>().map(|s| s.contains("sim clock read cap")).unwrap_or(false);
        if (own && !abort && !cap) || std::env::var("VERIF_SHOW_PANICS").is_ok() {
            eprintln!("panic: {info}");
        }
    }));
    // HNSW link count is read from the process environment at every open: fix it for the
    // whole process (before any worker thread exists) so that small-index exactness is reachable.
    if std::env::var("NERVUSDB_HNSW_M").is_err() {
        unsafe { std::env::set_var("NERVUSDB_HNSW_M", "2") };
    }
    let args: Vec<String> = std::env::args().collect();
    if args.len() < 2 {
        usage();
    }
    let code = std::panic::catch_unwind(|| run(&args)).unwrap_or_else(|_| {
        eprintln!("HARNESS ERROR: the harness itself panicked");
        2
    });
    l1::cleanup_process_tmp();
    std::process::exit(code);
}

fn run(args: &[String]) -> i32 {
    match args[1].as_str() {
        "list" => {
            for c in checks::all() {
                println!("{}", c.id());
            }
            0
        }
        "check" => {
            let id = args.get(2).cloned().unwrap_or_else(|| usage());
            let tier = args
                .get(3)
                .cloned()
                .or_else(|| std::env::var("VERIF_TIER").ok())
                .unwrap_or_else(|| "quick".into());
            let seed: u64 = std::env::var("VERIF_SEED").ok().and_then(|s| s.parse().ok()).unwrap_or(20260921);
            println!("VERIF_SEED={seed} property={id} tier={tier}");
            match checks::by_id(&id) {
                Some(c) => framework::run_check(c, &tier, seed).exit,
                None => {
                    eprintln!("unknown check {id}");
                    2
                }
            }
        }
        "replay" => {
            let p = args.get(2).cloned().unwrap_or_else(|| usage());
            framework::run_replay(&p)
        }
        _ => usage(),
    }
}
