mod capi;
mod checks;
mod disk;
mod dump;
mod framework;
mod l1;
mod l2;
mod model;
mod prng;
mod sched;
mod world;

fn usage() -> ! {
    eprintln!("usage: nervus-sim check <ID> [quick|thorough] | replay <file> | list");
    std::process::exit(2);
}

fn main() {
    // panics inside the system under test are caught and attributed; keep stderr quiet
    std::panic::set_hook(Box::new(|info| {
        let own = info.location().map(|l| !l.file().starts_with("/repo")).unwrap_or(true);
        let abort = info.payload().is::<sched::SimAbort>();
        let cap = info.payload().downcast_ref::<&str>().map(|s| s.contains("sim clock read cap")).unwrap_or(false);
        if (own && !abort && !cap) || std::env::var("VERIF_SHOW_PANICS").is_ok() {
            eprintln!("panic: {info}");
        }
    }));
    // HNSW link count is read from the process environment at every open: fix it for the
    // whole process (before any worker thread exists) so that small-index exactness is reachable.
    if std::env::var("NERVUSDB_HNSW_M").is_err() {
        unsafe { std::env::set_var("NERVUSDB_HNSW_M", "2") };
    }
    let args: Vec<String> = std::env::args().collect();
    if args.len() < 2 {
        usage();
    }
    let code = std::panic::catch_unwind(|| run(&args)).unwrap_or_else(|_| {
        eprintln!("HARNESS ERROR: the harness itself panicked");
        2
    });
    l1::cleanup_process_tmp();
    std::process::exit(code);
}

/// Run this executable again with `args`; `None` = killed by a signal.
pub fn child(args: &[&str]) -> Option<i32> {
    let exe = std::env::current_exe().expect("current_exe");
    std::process::Command::new(exe).args(args).status().ok().and_then(|s| s.code())
}

fn run(args: &[String]) -> i32 {
    match args[1].as_str() {
        "list" => {
            for c in checks::all() {
                println!("{}", c.id());
            }
            0
        }
        // Outer commands run the work in a child process: if the system under test aborts the
        // process (failed allocation, stack overflow) the parent survives, finds the case and
        // reports it as a violation instead of dying silently.
        "check" => {
            let id = args.get(2).cloned().unwrap_or_else(|| usage());
            let tier = args
                .get(3)
                .cloned()
                .or_else(|| std::env::var("VERIF_TIER").ok())
                .unwrap_or_else(|| "quick".into());
            let st = child(&["check-inner", &id, &tier]);
            match st {
                Some(c @ (0 | 1 | 2)) => c,
                other => framework::locate_abort(&id, &tier, other),
            }
        }
        "replay" => {
            let p = args.get(2).cloned().unwrap_or_else(|| usage());
            match child(&["replay-inner", &p]) {
                Some(c @ (0 | 1 | 2)) => c,
                other => {
                    let prop = std::fs::read_to_string(&p)
                        .ok()
                        .and_then(|s| serde_json::from_str::<framework::Case>(&s).ok())
                        .map(|c| c.property)
                        .unwrap_or_default();
                    println!("replay {p}: the process was aborted while executing the case (status {other:?})");
                    println!("VIOLATION property={prop} replay={p}");
                    1
                }
            }
        }
        "case-range" => {
            // case-range <ID> <tier> <lo> <hi>: run cases lo..hi sequentially (abort bisection)
            let id = args.get(2).cloned().unwrap_or_else(|| usage());
            let tier = args.get(3).cloned().unwrap_or_else(|| usage());
            let lo: usize = args.get(4).and_then(|s| s.parse().ok()).unwrap_or(0);
            let hi: usize = args.get(5).and_then(|s| s.parse().ok()).unwrap_or(0);
            let seed: u64 = std::env::var("VERIF_SEED").ok().and_then(|s| s.parse().ok()).unwrap_or(20260921);
            match checks::by_id(&id) {
                Some(c) => {
                    framework::run_case_range(c, &tier, seed, lo, hi);
                    0
                }
                None => 2,
            }
        }
        "check-inner" => {
            let id = args.get(2).cloned().unwrap_or_else(|| usage());
            let tier = args
                .get(3)
                .cloned()
                .or_else(|| std::env::var("VERIF_TIER").ok())
                .unwrap_or_else(|| "quick".into());
            let seed: u64 = std::env::var("VERIF_SEED").ok().and_then(|s| s.parse().ok()).unwrap_or(20260921);
            println!("VERIF_SEED={seed} property={id} tier={tier}");
            match checks::by_id(&id) {
                Some(c) => framework::run_check(c, &tier, seed).exit,
                None => {
                    eprintln!("unknown check {id}");
                    2
                }
            }
        }
        "handle-server" => {
            // second OS process of C10's two-process configuration
            let ndb = args.get(2).cloned().unwrap_or_else(|| usage());
            let wal = args.get(3).cloned().unwrap_or_else(|| usage());
            checks::handles::handle_server(std::path::Path::new(&ndb), std::path::Path::new(&wal))
        }
        "replay-inner" => {
            let p = args.get(2).cloned().unwrap_or_else(|| usage());
            framework::run_replay(&p)
        }
        _ => usage(),
    }
}
