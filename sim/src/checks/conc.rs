//! Schedule-controlled checks: C03 (snapshots consistent and stable), C35 (no
//! deadlock). Real OS threads, one at a time, every lock acquisition / atomic
//! access / I/O step is a seeded scheduling decision.

use crate::checks::lifecycle::{classes_of, ops_of, ops_to_json, valid_history};
use crate::dump::{Dump, dump_snapshot, panic_msg};
use crate::framework::{Case, CaseResult, Check, Viol};
use crate::l1::{Runner, Sandbox, apply_top, gen_history, gen_knobs};
use crate::model::{GraphState, Model, Op};
use crate::prng::Rng;
use crate::sched::{Outcome, Sched, SchedMode, SimAbort};
use crate::world::World;
use ndb_api::GraphStore;
use ndb_storage::engine::GraphEngine;
use serde::{Deserialize, Serialize};
use serde_json::json;
use std::panic::{AssertUnwindSafe, catch_unwind};
use std::sync::atomic::{AtomicU64, Ordering};
use std::sync::{Arc, Mutex};
use std::time::Duration;

pub fn checks() -> Vec<&'static dyn Check> {
    static C03: SnapshotCheck = SnapshotCheck;
    static C35: DeadlockCheck = DeadlockCheck;
    vec![&C03, &C35]
}

pub struct ThreadsRun {
    pub outcome: Result<Outcome, String>,
    pub decisions: Vec<u16>,
    pub steps: u64,
    pub switches: u64,
    pub ctx_hash: u64,
    pub lock_edges: std::collections::BTreeMap<(String, String), std::collections::BTreeSet<String>>,
    pub points: std::collections::BTreeMap<&'static str, u64>,
    /// panics of simulated threads that were not scheduler aborts
    pub panics: Vec<(String, String)>,
    /// the recorded schedule of a replay file no longer fits this tree
    pub diverged: Option<String>,
}

pub type Program = Box<dyn FnOnce() + Send>;

/// Run `programs` as simulated threads under a seeded scheduler.
pub fn run_threads(
    world_root: &std::path::Path,
    seed: u64,
    mode: SchedMode,
    step_cap: u64,
    replay: Option<Vec<u16>>,
    programs: Vec<(String, Program)>,
    setup: impl FnOnce(&Arc<World>),
) -> ThreadsRun {
    let sched = Sched::new(seed, mode, step_cap, replay);
    let world = Arc::new(World::build(world_root, seed, Some(sched.clone()), false));
    setup(&world);
    let panics: Arc<Mutex<Vec<(String, String)>>> = Arc::new(Mutex::new(Vec::new()));
    let mut handles = Vec::new();
    for (name, prog) in programs {
        let tid = sched.register(&name);
        let sched2 = sched.clone();
        let world2 = world.clone();
        let panics2 = panics.clone();
        handles.push(
            std::thread::Builder::new()
                .name(name.clone())
                .stack_size(8 << 20)
                .spawn(move || {
                    let _g = world2.install();
                    let r = catch_unwind(AssertUnwindSafe(|| {
                        sched2.enter(tid);
                        prog();
                    }));
                    if let Err(p) = r
                        && !p.is::<SimAbort>()
                    {
                        panics2.lock().unwrap().push((name, panic_msg(p)));
                    }
                    sched2.exit(tid);
                })
                .expect("spawn"),
        );
    }
    let outcome = sched.run(Duration::from_secs(30));
    for h in handles {
        let _ = h.join();
    }
    let p = panics.lock().unwrap().clone();
    ThreadsRun {
        outcome,
        decisions: sched.decisions(),
        steps: sched.steps(),
        switches: sched.switches(),
        ctx_hash: sched.ctx_hash(),
        lock_edges: sched.lock_edges(),
        points: sched.point_counts(),
        panics: p,
        diverged: sched.diverged(),
    }
}

/// Reductions of `params.threads` (a list of per-thread op lists): drop a whole thread
/// (keeping at least two), or drop one op of one thread. The schedule is re-searched.
pub fn shrink_thread_programs(case: &Case) -> Vec<Case> {
    let mut out = Vec::new();
    let Some(threads) = case.params.get("threads").and_then(|t| t.as_array()) else { return out };
    if threads.len() > 2 {
        for i in 0..threads.len() {
            let mut c = case.clone();
            c.schedule = None;
            c.params["threads"].as_array_mut().unwrap().remove(i);
            out.push(c);
        }
    }
    for (i, t) in threads.iter().enumerate() {
        let n = t.as_array().map(|a| a.len()).unwrap_or(0);
        if n > 1 {
            for j in 0..n {
                let mut c = case.clone();
                c.schedule = None;
                c.params["threads"][i].as_array_mut().unwrap().remove(j);
                out.push(c);
            }
        }
    }
    out
}

pub fn gen_mode(rng: &mut Rng) -> SchedMode {
    match rng.below(5) {
        0 => SchedMode::Random { p_switch_permille: 500 },
        1 => SchedMode::Random { p_switch_permille: 100 },
        2 => SchedMode::Random { p_switch_permille: 20 },
        3 => SchedMode::Pct { depth: 1 + rng.below(3) as u32, est_steps: 1500 },
        _ => SchedMode::Random { p_switch_permille: 5 },
    }
}

#[derive(Serialize, Deserialize, Clone, Debug)]
pub struct ConcParams {
    pub mode: SchedMode,
    pub readers: usize,
    pub snaps_per_reader: usize,
    pub dumps_per_snap: usize,
    pub step_cap: u64,
    /// maintenance operations (compaction / index creation) issued by a second thread
    /// concurrently with the writer's commits
    #[serde(default)]
    pub maintenance: Vec<Op>,
    /// each reader first takes this many snapshots back to back (dumping them afterwards):
    /// a long stretch of snapshot-taking that can overlap a publication step
    #[serde(default)]
    pub burst: usize,
}

pub struct SnapshotCheck;

/// No delete, no removal, no second write to the same (entity, key): compaction at any
/// moment of such a history stays clear of the known compaction findings (F06-F10).
fn append_only(ops: &[Op]) -> bool {
    use crate::model::TOp;
    let mut seen: std::collections::BTreeSet<String> = std::collections::BTreeSet::new();
    for op in ops {
        if let Op::Txn { ops, .. } = op {
            for t in ops {
                match t {
                    TOp::DelNode { .. } | TOp::DelEdge { .. } | TOp::RemoveNodeProp { .. } | TOp::RemoveEdgeProp { .. } | TOp::RemoveLabel { .. } | TOp::AddLabel { .. } => return false,
                    TOp::SetNodeProp { node, key, .. } => {
                        if !seen.insert(format!("n{node}:{key}")) {
                            return false;
                        }
                    }
                    TOp::SetEdgeProp { src, rel, dst, key, .. } => {
                        if !seen.insert(format!("e{src}:{rel}:{dst}:{key}")) {
                            return false;
                        }
                    }
                    _ => {}
                }
            }
        }
    }
    true
}

struct SnapObs {
    reader: usize,
    inv: u64,
    ret: u64,
    dumps: Vec<Dump>,
}

/// Execute one op on a shared engine (no reopen-style ops here).
fn exec_shared(engine: &GraphEngine, model: &mut Model, op: &Op) -> Result<(), String> {
    match op {
        Op::Txn { ops, commit } => {
            let mut cand = model.clone();
            let mut tx = engine.begin_write();
            for t in ops {
                apply_top(&mut tx, t, &cand)?;
                cand.apply(t);
            }
            if *commit {
                cand.commits += 1;
                tx.commit().map_err(|e| format!("commit: {e}"))?;
                *model = cand;
            }
            Ok(())
        }
        Op::Compact => engine.compact().map_err(|e| format!("compact: {e}")),
        Op::CreateIndex { label, prop } => engine.create_index(label, prop).map_err(|e| format!("create_index: {e}")),
        _ => Ok(()),
    }
}

impl Check for SnapshotCheck {
    fn id(&self) -> &'static str {
        "C03"
    }
    fn budget(&self, tier: &str) -> usize {
        if tier == "thorough" { 250_000 } else { 8_000 }
    }
    fn gen_case(&self, seed: u64, _idx: usize, _tier: &str, avoid: &[String]) -> Case {
        let mut rng = Rng::new(seed, "workload");
        let mut k = gen_knobs(&mut rng, avoid);
        // txn, abandon, compact, create_index, close_reopen, drop_reopen, vacuum
        k.w_top = [40, 2, *rng.pick(&[0, 8, 16]), 2, 0, 0, 0];
        k.n_ops = rng.range(1, 7) as usize;
        k.max_txn_ops = rng.range(1, 5) as usize;
        k.big_values = false;
        let mut ops = gen_history(&mut rng, &k);
        let one_compaction = avoid.iter().any(|a| a == "second_compaction_with_open_snapshot");
        if one_compaction {
            // F43: a snapshot open across the second compaction sees later property values
            let mut seen = false;
            ops.retain(|o| !matches!(o, Op::Compact) || !std::mem::replace(&mut seen, true));
        }
        let mut compactions = ops.iter().filter(|o| matches!(o, Op::Compact)).count();
        let many_snaps = rng.chance(0.3);
        let params = ConcParams {
            mode: gen_mode(&mut rng),
            readers: rng.range(1, 3) as usize,
            // many short-lived snapshots: more chances to land inside a publication step
            snaps_per_reader: if many_snaps { rng.range(5, 10) as usize } else { rng.range(1, 4) as usize },
            dumps_per_snap: if many_snaps { 1 } else { rng.range(1, 3) as usize },
            step_cap: 60_000,
            burst: if rng.chance(0.3) { rng.range(6, 24) as usize } else { 0 },
            maintenance: if rng.chance(0.5) {
                (0..rng.range(1, 3))
                    .map(|_| {
                        if rng.chance(0.7) && append_only(&ops) && !(one_compaction && compactions > 0) {
                            compactions += 1;
                            Op::Compact
                        } else {
                            Op::CreateIndex { label: rng.pick(&crate::model::LABELS).to_string(), prop: rng.pick(&crate::model::KEYS).to_string() }
                        }
                    })
                    .collect()
            } else {
                Vec::new()
            },
        };
        Case {
            property: "C03".into(),
            config: "writer_vs_readers".into(),
            seed,
            knobs: serde_json::to_value(&k).unwrap(),
            ops: ops_to_json(&ops),
            params: serde_json::to_value(&params).unwrap(),
            ..Default::default()
        }
    }
    fn valid(&self, case: &Case) -> bool {
        valid_history(&ops_of(case))
    }
    fn run_case(&self, case: &Case) -> CaseResult {
        let mut res = CaseResult::default();
        let ops = ops_of(case);
        let params: ConcParams = match serde_json::from_value(case.params.clone()) {
            Ok(p) => p,
            Err(e) => {
                res.harness_error = Some(format!("bad params: {e}"));
                return res;
            }
        };
        let sb = Sandbox::new("c03");
        // model states after every op (sequential semantics)
        let mut states: Vec<GraphState> = vec![GraphState::default()];
        let mut probe = 0u32;
        {
            let mut m = Model::default();
            for op in &ops {
                if let Op::Txn { ops, commit: true } = op {
                    for t in ops {
                        m.apply(t);
                    }
                }
                states.push(m.g.clone());
            }
            probe = probe.max(m.next_iid);
        }
        let engine_slot: Arc<Mutex<Option<Arc<GraphEngine>>>> = Arc::new(Mutex::new(None));
        let ev = Arc::new(AtomicU64::new(1));
        // (begin event, ack event) per op
        let op_events: Arc<Mutex<Vec<(u64, u64)>>> = Arc::new(Mutex::new(Vec::new()));
        let observations: Arc<Mutex<Vec<SnapObs>>> = Arc::new(Mutex::new(Vec::new()));
        let writer_err: Arc<Mutex<Option<String>>> = Arc::new(Mutex::new(None));

        let mut programs: Vec<(String, Program)> = Vec::new();
        {
            let slot = engine_slot.clone();
            let ev = ev.clone();
            let op_events = op_events.clone();
            let ops2 = ops.clone();
            let werr = writer_err.clone();
            programs.push((
                "writer".into(),
                Box::new(move || {
                    let engine = slot.lock().unwrap().clone().unwrap();
                    let mut model = Model::default();
                    for op in &ops2 {
                        let b = ev.fetch_add(1, Ordering::SeqCst);
                        let r = exec_shared(&engine, &mut model, op);
                        let a = ev.fetch_add(1, Ordering::SeqCst);
                        op_events.lock().unwrap().push((b, a));
                        if let Err(e) = r {
                            *werr.lock().unwrap() = Some(e);
                            return;
                        }
                    }
                }),
            ));
        }
        for r in 0..params.readers {
            let slot = engine_slot.clone();
            let ev = ev.clone();
            let obs = observations.clone();
            let n_snaps = params.snaps_per_reader;
            let n_dumps = params.dumps_per_snap;
            let burst = params.burst;
            programs.push((
                format!("reader{r}"),
                Box::new(move || {
                    let engine = slot.lock().unwrap().clone().unwrap();
                    let mut held: Vec<(usize, ndb_storage::api::StorageSnapshot)> = Vec::new();
                    if burst > 0 {
                        let mut taken = Vec::new();
                        for _ in 0..burst {
                            let inv = ev.fetch_add(1, Ordering::SeqCst);
                            let snap = engine.snapshot();
                            let ret = ev.fetch_add(1, Ordering::SeqCst);
                            taken.push((inv, ret, snap));
                        }
                        for (inv, ret, snap) in taken {
                            let d = dump_snapshot(&snap, probe);
                            obs.lock().unwrap().push(SnapObs { reader: r, inv, ret, dumps: vec![d] });
                        }
                    }
                    for _ in 0..n_snaps {
                        let inv = ev.fetch_add(1, Ordering::SeqCst);
                        let snap = engine.snapshot();
                        let ret = ev.fetch_add(1, Ordering::SeqCst);
                        let d = dump_snapshot(&snap, probe);
                        let idx = {
                            let mut o = obs.lock().unwrap();
                            o.push(SnapObs { reader: r, inv, ret, dumps: vec![d] });
                            o.len() - 1
                        };
                        held.push((idx, snap));
                        // re-read every snapshot still held (long-lived snapshots)
                        for (i, s) in &held {
                            for _ in 0..n_dumps {
                                let d = dump_snapshot(s, probe);
                                obs.lock().unwrap()[*i].dumps.push(d);
                            }
                        }
                    }
                }),
            ));
        }
        if !params.maintenance.is_empty() {
            let slot = engine_slot.clone();
            let mops = params.maintenance.clone();
            let werr = writer_err.clone();
            programs.push((
                "maintenance".into(),
                Box::new(move || {
                    let engine = slot.lock().unwrap().clone().unwrap();
                    let mut scratch = Model::default();
                    for op in &mops {
                        if let Err(e) = exec_shared(&engine, &mut scratch, op) {
                            *werr.lock().unwrap() = Some(e);
                            return;
                        }
                    }
                }),
            ));
        }
        let slot2 = engine_slot.clone();
        let dir = sb.dir.clone();
        let mut open_err = None;
        let run = run_threads(&sb.dir, case.seed, params.mode.clone(), params.step_cap, case.schedule.clone(), programs, |world| {
            let _g = world.install();
            match Runner::open(&dir) {
                Ok(mut r) => {
                    *slot2.lock().unwrap() = Some(Arc::new(r.engine.take().unwrap()));
                }
                Err(e) => open_err = Some(e),
            }
        });
        // final state (all threads done): must equal the model after the whole history
        let final_dump = engine_slot.lock().unwrap().as_ref().map(|e| {
            let world = World::new(&sb.dir, case.seed);
            let _g = world.install();
            let snap = e.snapshot();
            dump_snapshot(&snap, probe)
        });
        *engine_slot.lock().unwrap() = None;
        if let Some(e) = open_err {
            res.harness_error = Some(e);
            return res;
        }
        res.stats.inc("evaluations");
        res.stats.add("sched_steps", run.steps);
        res.stats.add("context_switches", run.switches);
        res.stats.see("schedules", run.ctx_hash);
        if let Some(d) = &run.diverged {
            res.stats.inc("replay_schedule_diverged");
            eprintln!("note: recorded schedule no longer fits this tree ({d}); continued under the seeded scheduler");
        }
        for (k, v) in &run.points {
            res.stats.add(&format!("yield:{k}"), *v);
        }
        let schedule = Some(run.decisions.clone());
        match &run.outcome {
            Err(e) => {
                res.harness_error = Some(format!("scheduler: {e}"));
                return res;
            }
            Ok(Outcome::ReplayDiverged(m)) => {
                res.harness_error = Some(format!("replay diverged: {m}"));
                return res;
            }
            Ok(Outcome::StepCap) => {
                res.stats.inc("inconclusive_step_cap");
                return res;
            }
            Ok(Outcome::Deadlock(d)) => {
                // reported under C35; here the run is merely inconclusive
                res.stats.inc("inconclusive_deadlock");
                let _ = d;
                return res;
            }
            Ok(Outcome::Completed) => {}
        }
        for (name, msg) in &run.panics {
            res.viols.push(Viol {
                class: format!("panic:{}", if name.starts_with("reader") { "reader" } else { "writer" }),
                detail: format!("{name} panicked: {msg}"),
                focus: None,
                schedule: schedule.clone(),
            });
        }
        if let Some(e) = writer_err.lock().unwrap().clone() {
            res.stats.inc("foreign_discrepancy");
            let _ = e;
            return res;
        }
        if let Some(fd) = &final_dump {
            let want = states.last().unwrap();
            if !fd.inv.is_empty() || fd.g != *want {
                let mut diffs = fd.g.diff(want);
                for (c, t) in &fd.inv {
                    diffs.push((format!("inv:{c}"), t.clone()));
                }
                let detail: Vec<String> = diffs.iter().take(5).map(|(c, t)| format!("[{c}] {t}")).collect();
                res.viols.push(Viol {
                    class: format!("final_state:{}", classes_of(&diffs)),
                    detail: format!("after all threads finished the database differs from the model: {}", detail.join("; ")),
                    focus: None,
                    schedule: schedule.clone(),
                });
            }
        }
        let evs = op_events.lock().unwrap().clone();
        let obs = observations.lock().unwrap();
        res.stats.sample(json!({
            "seed": case.seed, "ops": ops.iter().map(|o| o.kind()).collect::<Vec<_>>(),
            "mode": params.mode, "threads": 1 + params.readers, "sched_steps": run.steps, "switches": run.switches,
        }));
        for o in obs.iter() {
            // lo = ops acknowledged before the snapshot call began; hi = ops begun before it returned
            let lo = evs.iter().filter(|(_, a)| *a < o.inv).count();
            let hi = evs.iter().filter(|(b, _)| *b < o.ret).count();
            if hi > lo {
                res.stats.inc("probe:snapshot_overlaps_writer_op");
            }
            let first = &o.dumps[0];
            let matched = (lo..=hi).find(|j| first.inv.is_empty() && first.g == states[*j]);
            if matched.is_none() {
                // closest admissible state for the report
                let best = (lo..=hi)
                    .map(|j| {
                        let mut d = first.g.diff(&states[j]);
                        for (c, t) in &first.inv {
                            d.push((format!("inv:{c}"), t.clone()));
                        }
                        d
                    })
                    .min_by_key(|d| d.len())
                    .unwrap_or_default();
                let detail: Vec<String> = best.iter().take(5).map(|(c, t)| format!("[{c}] {t}")).collect();
                res.viols.push(Viol {
                    class: format!("torn_snapshot:{}", classes_of(&best)),
                    detail: format!(
                        "reader{} snapshot taken while ops {lo}..{hi} were in flight equals no state S_{lo}..S_{hi}: {}",
                        o.reader,
                        detail.join("; ")
                    ),
                    focus: None,
                    schedule: schedule.clone(),
                });
                continue;
            }
            for (k, d) in o.dumps.iter().enumerate().skip(1) {
                if d.g != first.g || d.inv != first.inv {
                    let mut diffs = d.g.diff(&first.g);
                    for (c, t) in &d.inv {
                        diffs.push((format!("inv:{c}"), t.clone()));
                    }
                    let detail: Vec<String> = diffs.iter().take(5).map(|(c, t)| format!("[{c}] {t}")).collect();
                    res.viols.push(Viol {
                        class: format!("unstable_snapshot:{}", classes_of(&diffs)),
                        detail: format!("reader{} re-read #{k} of one snapshot differs from its first read: {}", o.reader, detail.join("; ")),
                        focus: None,
                        schedule: schedule.clone(),
                    });
                    break;
                }
            }
        }
        let mut seen = std::collections::BTreeSet::new();
        res.viols.retain(|v| seen.insert(v.class.clone()));
        res
    }
    fn shrink_candidates(&self, case: &Case) -> Vec<Case> {
        let mut out = Vec::new();
        for (key, min) in [("readers", 1u64), ("snaps_per_reader", 1), ("dumps_per_snap", 1), ("burst", 0)] {
            if let Some(v) = case.params.get(key).and_then(|v| v.as_u64())
                && v > min
            {
                let mut c = case.clone();
                c.schedule = None;
                c.params[key] = serde_json::json!(v - 1);
                out.push(c);
            }
        }
        if let Some(m) = case.params.get("maintenance").and_then(|m| m.as_array()) {
            for i in 0..m.len() {
                let mut c = case.clone();
                c.schedule = None;
                c.params["maintenance"].as_array_mut().unwrap().remove(i);
                out.push(c);
            }
        }
        out
    }
    fn rule(&self) -> String {
        "One writer thread executes a generated L1 history (commits, abandoned transactions, compaction, index creation) on a shared engine while 1-3 reader threads take snapshots and dump them repeatedly, keeping earlier snapshots alive and re-reading them after later writer steps. All threads run under the seeded cooperative scheduler (uniform-random with per-run switch probability 0.5%..50%, or PCT with depth 1-3); every Mutex/RwLock acquisition, AtomicU64 access and mutating I/O step of the engine is a scheduling point. Oracle on the recorded history (global event numbers): a snapshot whose creation spans writer operations lo..hi must equal exactly one model state S_j, lo <= j <= hi, and every later dump of the same snapshot must equal its first. evaluations = simulated runs; distinct_nontrivial = distinct context-switch sequences (hash of (thread, step) at every switch).".into()
    }
    fn nontrivial_set(&self) -> &'static str {
        "schedules"
    }
    fn assumptions(&self) -> Vec<String> {
        vec![
            "Only sequentially consistent interleavings are explored (one thread runs at a time); Relaxed-ordering effects of real hardware are out of reach.".into(),
            "Locks not routed through the facade (query-side per-execution mutexes) are assumed never to be held across a scheduling point; a violation of that assumption trips the watchdog (harness error).".into(),
        ]
    }
    fn real_vs_stub(&self) -> serde_json::Value {
        json!({
            "real": ["nervusdb-storage engine, snapshots, read paths, WAL, pager (real code, real threads)", "kernel file I/O on tmpfs"],
            "stub": ["thread scheduling (cooperative, seeded; lock blocking is parking in the simulator)", "fsync (journaled no-op)"],
            "not_run": ["bindings"]
        })
    }
}

// ---------------------------------------------------------------------------

pub struct DeadlockCheck;

#[derive(Serialize, Deserialize, Clone, Debug)]
pub enum MixOp {
    Txn(Op),
    Compact,
    CreateIndex(String, String),
    SnapshotRead,
    LookupIndex(String, String),
    NodeCount,
    SearchVector,
    SetVectorTxn { node: u32 },
    NewLabelTxn(String),
    /// close-time checkpoint (log rewrite) while other threads work
    Checkpoint,
    /// vector insertion outside a transaction (public engine entry point)
    InsertVector { node: u32 },
    /// property write on an indexed (label, key): index maintenance inside commit
    SetPropTxn { node: u32, val: i64 },
}

#[derive(Serialize, Deserialize, Clone, Debug)]
pub struct MixParams {
    pub mode: SchedMode,
    pub threads: Vec<Vec<MixOp>>,
    pub step_cap: u64,
}

impl Check for DeadlockCheck {
    fn id(&self) -> &'static str {
        "C35"
    }
    fn budget(&self, tier: &str) -> usize {
        if tier == "thorough" { 150_000 } else { 5_000 }
    }
    fn gen_case(&self, seed: u64, _idx: usize, _tier: &str, avoid: &[String]) -> Case {
        let mut rng = Rng::new(seed, "workload");
        let nthreads = rng.range(2, 5) as usize;
        let mut threads = Vec::new();
        for t in 0..nthreads {
            let n = rng.range(1, 5) as usize;
            let mut v = Vec::new();
            for i in 0..n {
                let op = match rng.below(13) {
                    10 => MixOp::Checkpoint,
                    11 => MixOp::InsertVector { node: rng.below(2) as u32 },
                    12 => MixOp::SetPropTxn { node: rng.below(2) as u32, val: rng.below(3) as i64 },
                    0 | 1 => {
                        // independent small transaction (own external ids per thread)
                        let ext = 10_000 * (t as u64 + 1) + i as u64;
                        MixOp::Txn(Op::Txn {
                            ops: vec![crate::model::TOp::CreateNode { ext, labels: vec![rng.pick(&crate::model::LABELS).to_string()] }],
                            commit: rng.chance(0.8),
                        })
                    }
                    2 => MixOp::Compact,
                    3 => {
                        if rng.chance(0.5) {
                            MixOp::CreateIndex("LA".into(), "k0".into())
                        } else {
                            MixOp::CreateIndex(rng.pick(&crate::model::LABELS).to_string(), rng.pick(&crate::model::KEYS).to_string())
                        }
                    }
                    4 => MixOp::SnapshotRead,
                    5 => MixOp::LookupIndex(rng.pick(&crate::model::LABELS).to_string(), rng.pick(&crate::model::KEYS).to_string()),
                    6 => MixOp::NodeCount,
                    7 => MixOp::SearchVector,
                    8 => MixOp::SetVectorTxn { node: rng.below(2) as u32 },
                    _ => MixOp::NewLabelTxn(format!("NL{}_{}", t, i)),
                };
                v.push(op);
            }
            threads.push(v);
        }
        let _ = avoid;
        let params = MixParams { mode: gen_mode(&mut rng), threads, step_cap: 80_000 };
        Case {
            property: "C35".into(),
            config: "mixed_threads".into(),
            seed,
            params: serde_json::to_value(&params).unwrap(),
            ..Default::default()
        }
    }
    fn run_case(&self, case: &Case) -> CaseResult {
        let mut res = CaseResult::default();
        let params: MixParams = match serde_json::from_value(case.params.clone()) {
            Ok(p) => p,
            Err(e) => {
                res.harness_error = Some(format!("bad params: {e}"));
                return res;
            }
        };
        let sb = Sandbox::new("c35");
        let engine_slot: Arc<Mutex<Option<Arc<GraphEngine>>>> = Arc::new(Mutex::new(None));
        let mut programs: Vec<(String, Program)> = Vec::new();
        for (t, ops) in params.threads.iter().enumerate() {
            let slot = engine_slot.clone();
            let ops = ops.clone();
            programs.push((
                format!("t{t}"),
                Box::new(move || {
                    let engine = slot.lock().unwrap().clone().unwrap();
                    for op in &ops {
                        match op {
                            MixOp::Txn(Op::Txn { ops, commit }) => {
                                let mut tx = engine.begin_write();
                                for o in ops {
                                    if let crate::model::TOp::CreateNode { ext, labels } = o {
                                        let l = labels.first().map(|l| tx.get_or_create_label(l).unwrap_or(0)).unwrap_or(u32::MAX);
                                        let _ = tx.create_node(*ext, l);
                                    }
                                }
                                if *commit {
                                    let _ = tx.commit();
                                }
                            }
                            MixOp::Txn(_) => {}
                            MixOp::Compact => {
                                let _ = engine.compact();
                            }
                            MixOp::CreateIndex(l, p) => {
                                let _ = engine.create_index(l, p);
                            }
                            MixOp::SnapshotRead => {
                                let s = engine.snapshot();
                                let _ = dump_snapshot(&s, 4);
                            }
                            MixOp::LookupIndex(l, p) => {
                                use ndb_api::GraphSnapshot;
                                let s = engine.snapshot();
                                let _ = s.lookup_index(l, p, &ndb_api::PropertyValue::Int(1));
                            }
                            MixOp::NodeCount => {
                                use ndb_api::GraphSnapshot;
                                let s = engine.snapshot();
                                let _ = s.node_count(None);
                                let _ = s.edge_count(None);
                            }
                            MixOp::SearchVector => {
                                let _ = engine.search_vector(&[0.0, 1.0, 0.0], 3);
                            }
                            MixOp::SetVectorTxn { node } => {
                                let mut tx = engine.begin_write();
                                let _ = tx.set_vector(*node, vec![1.0, 0.0, 0.5]);
                                let _ = tx.commit();
                            }
                            MixOp::NewLabelTxn(name) => {
                                let tx = engine.begin_write();
                                let _ = tx.get_or_create_label(name);
                                let _ = tx.commit();
                            }
                            MixOp::Checkpoint => {
                                let _ = engine.checkpoint_on_close();
                            }
                            MixOp::InsertVector { node } => {
                                let _ = engine.insert_vector(*node, vec![0.5, 0.5, 1.0]);
                            }
                            MixOp::SetPropTxn { node, val } => {
                                let mut tx = engine.begin_write();
                                tx.set_node_property(*node, "k0".into(), ndb_storage::property::PropertyValue::Int(*val));
                                let _ = tx.commit();
                            }
                        }
                    }
                }),
            ));
        }
        let slot2 = engine_slot.clone();
        let dir = sb.dir.clone();
        let mut open_err = None;
        let run = run_threads(&sb.dir, case.seed, params.mode.clone(), params.step_cap, case.schedule.clone(), programs, |world| {
            let _g = world.install();
            match Runner::open(&dir) {
                Ok(mut r) => {
                    // two nodes so that vector operations have targets
                    let e = r.engine.take().unwrap();
                    let mut tx = e.begin_write();
                    let la = tx.get_or_create_label("LA").unwrap_or(u32::MAX);
                    let _ = tx.create_node(1, la);
                    let _ = tx.create_node(2, la);
                    let _ = tx.commit();
                    *slot2.lock().unwrap() = Some(Arc::new(e));
                }
                Err(e) => open_err = Some(e),
            }
        });
        *engine_slot.lock().unwrap() = None;
        if let Some(e) = open_err {
            res.harness_error = Some(e);
            return res;
        }
        res.stats.inc("evaluations");
        res.stats.add("sched_steps", run.steps);
        res.stats.add("context_switches", run.switches);
        res.stats.see("schedules", run.ctx_hash);
        if let Some(d) = &run.diverged {
            res.stats.inc("replay_schedule_diverged");
            eprintln!("note: recorded schedule no longer fits this tree ({d}); continued under the seeded scheduler");
        }
        for ((a, b), common) in &run.lock_edges {
            res.stats.see("lock_order_edges", crate::prng::fnv(&format!("{a}->{b}")));
            res.stats.inc(&format!("lockedge:{a}->{b}|gate:{}", common.iter().cloned().collect::<Vec<_>>().join(",")));
        }
        for (k, v) in &run.points {
            res.stats.add(&format!("yield:{k}"), *v);
        }
        res.stats.sample(json!({
            "seed": case.seed, "mode": params.mode,
            "threads": params.threads.iter().map(|t| t.iter().map(|o| format!("{o:?}").split('(').next().unwrap_or("").split(' ').next().unwrap_or("").to_string()).collect::<Vec<_>>()).collect::<Vec<_>>(),
            "sched_steps": run.steps, "switches": run.switches,
        }));
        let schedule = Some(run.decisions.clone());
        match run.outcome {
            Err(e) => res.harness_error = Some(format!("scheduler: {e}")),
            Ok(Outcome::ReplayDiverged(m)) => res.harness_error = Some(format!("replay diverged: {m}")),
            Ok(Outcome::StepCap) => {
                // bounded liveness: without faults every run must finish within the step cap
                res.viols.push(Viol {
                    class: "no_progress_within_step_cap".into(),
                    detail: format!("run did not finish within {} scheduling steps", params.step_cap),
                    focus: None,
                    schedule,
                });
            }
            Ok(Outcome::Deadlock(d)) => {
                let cls: String = d
                    .split('[')
                    .filter_map(|s| s.split(" waits for ").nth(1).map(|r| r.split(' ').next().unwrap_or("").to_string()))
                    .collect::<std::collections::BTreeSet<_>>()
                    .into_iter()
                    .collect::<Vec<_>>()
                    .join("+");
                res.viols.push(Viol { class: format!("deadlock:{cls}"), detail: d, focus: None, schedule });
            }
            Ok(Outcome::Completed) => {
                for (name, msg) in &run.panics {
                    res.viols.push(Viol {
                        class: "panic".into(),
                        detail: format!("{name} panicked: {msg}"),
                        focus: None,
                        schedule: schedule.clone(),
                    });
                }
            }
        }
        res
    }
    fn shrink_candidates(&self, case: &Case) -> Vec<Case> {
        shrink_thread_programs(case)
    }
    fn rule(&self) -> String {
        "2-5 simulated threads, each a PRNG mix of: small write transactions (some abandoned), compaction, index creation, snapshot + full read, index lookup, node/edge counts (statistics cache), vector insertion (inside a transaction and through the engine's direct entry point) and search, first use of a new label, property writes on an indexed (label, key), close-time checkpoint. The simulated RwLock is writer-preferring in 3 of 4 runs (as std's futex RwLock: no new reader while a writer waits), so a second read lock taken by a thread behind a waiting writer is an exact deadlock. Seeded cooperative scheduler (random with switch probability 0.5%..50%, or PCT depth 1-3); every lock acquisition / atomic access / I/O step is a scheduling point. Violation = the exact deadlock condition (every unfinished thread parked on a lock; the wait-for description is printed) or no completion within the step cap (bounded liveness without faults). The lock-order graph observed across all runs is reported as evidence (edge A->B with the locks common to all observations), never as an alarm. evaluations = simulated runs; distinct_nontrivial = distinct context-switch sequences.".into()
    }
    fn nontrivial_set(&self) -> &'static str {
        "schedules"
    }
    fn assumptions(&self) -> Vec<String> {
        vec![
            "Only interleavings of the intercepted synchronisation points are explored; a lock that is not routed through the facade would block in the kernel and trip the watchdog (harness error).".into(),
            "The C API layer adds no lock of its own around these entry points (it is exercised under C09).".into(),
        ]
    }
    fn real_vs_stub(&self) -> serde_json::Value {
        json!({
            "real": ["nervusdb-storage engine incl. HNSW index, index catalog, statistics cache (real code, real threads)"],
            "stub": ["thread scheduling and lock blocking (simulator)", "HNSW level randomness (seeded stream)", "fsync"],
            "not_run": ["bindings"]
        })
    }
}
