//! C31: vector search is sound and durable. HNSW level randomness comes from the
//! simulator's PRNG stream (one seed = one index shape); reopen events test
//! durability; a brute-force oracle checks exactness for small indexes.

use crate::checks::lifecycle::{ops_of, ops_to_json, valid_history};
use crate::framework::{Case, CaseResult, Check, Viol};
use crate::l1::{Runner, Sandbox, gen_history, gen_knobs};
use crate::model::{Model, Op, TOp};
use crate::prng::Rng;
use crate::world::World;
use ndb_storage::engine::GraphEngine;
use serde_json::json;
use std::collections::BTreeSet;

pub fn checks() -> Vec<&'static dyn Check> {
    static C31: VectorCheck = VectorCheck;
    vec![&C31]
}

/// Link count the engine is opened with in this process (set before any worker starts).
pub fn hnsw_m() -> usize {
    std::env::var("NERVUSDB_HNSW_M").ok().and_then(|v| v.parse().ok()).unwrap_or(16)
}

pub fn euclid(a: &[f32], b: &[f32]) -> f32 {
    a.iter().zip(b.iter()).map(|(x, y)| (x - y).powi(2)).sum::<f32>().sqrt()
}

pub fn probe_queries() -> Vec<Vec<f32>> {
    vec![vec![0.0, 0.0, 0.0], vec![1.0, -1.0, 2.0], vec![-2.0, 2.0, 0.5]]
}

/// Compare vector search with the model. `ever`: number of distinct nodes that were ever
/// given a vector (an upper bound of what the index holds).
pub fn vector_discrepancies(engine: &GraphEngine, model: &Model, ever: usize) -> Vec<(String, String)> {
    let mut out = Vec::new();
    let m = hnsw_m();
    for q in probe_queries() {
        for k in [1usize, 3, 50] {
            let res = match std::panic::catch_unwind(std::panic::AssertUnwindSafe(|| engine.search_vector(&q, k))) {
                Ok(Ok(r)) => r,
                Ok(Err(e)) => {
                    out.push(("search_failed".into(), format!("search_vector({q:?},{k}): {e}")));
                    return out;
                }
                Err(p) => {
                    out.push(("search_panicked".into(), format!("search_vector({q:?},{k}): {}", crate::dump::panic_msg(p))));
                    return out;
                }
            };
            if res.len() > k {
                out.push(("too_many_results".into(), format!("k={k}, got {}", res.len())));
            }
            let mut seen = BTreeSet::new();
            let mut last = f32::NEG_INFINITY;
            for (id, d) in &res {
                if !seen.insert(*id) {
                    out.push(("duplicate_result".into(), format!("search_vector({q:?},{k}) returned node {id} twice: {res:?}")));
                }
                match model.vectors.get(id) {
                    None => {
                        let why = if model.g.nodes.contains_key(id) { "node_without_vector" } else { "nonexistent_node" };
                        out.push((format!("result_{why}"), format!("search_vector({q:?},{k}) returned node {id}: {res:?}; model vectors {:?}", model.vectors.keys().collect::<Vec<_>>())));
                    }
                    Some(v) => {
                        let want = euclid(&q, v);
                        if want.to_bits() != d.to_bits() {
                            out.push(("wrong_distance".into(), format!("node {id}: distance {d} but its current vector {v:?} is at {want} from {q:?}")));
                        }
                    }
                }
                if *d < last {
                    out.push(("not_sorted".into(), format!("{res:?}")));
                }
                last = *d;
            }
            if ever <= 2 * m + 1 && out.is_empty() {
                // small index: exactly the k nearest (ties either way)
                let mut all: Vec<f32> = model.vectors.values().map(|v| euclid(&q, v)).collect();
                all.sort_by(|a, b| a.partial_cmp(b).unwrap());
                all.truncate(k);
                let got: Vec<f32> = res.iter().map(|(_, d)| *d).collect();
                if got.iter().map(|f| f.to_bits()).collect::<Vec<_>>() != all.iter().map(|f| f.to_bits()).collect::<Vec<_>>() {
                    let cls = if got.len() < all.len() { "small_index_results_missing" } else { "small_index_not_nearest" };
                    out.push((cls.into(), format!("search_vector({q:?},{k}) distances {got:?}, brute force {all:?} (index holds at most {ever} <= 2m+1 = {} vectors)", 2 * m + 1)));
                }
            }
            if !out.is_empty() {
                return out;
            }
        }
    }
    out
}

pub struct VectorCheck;

impl Check for VectorCheck {
    fn id(&self) -> &'static str {
        "C31"
    }
    fn budget(&self, tier: &str) -> usize {
        if tier == "thorough" { 600_000 } else { 8_000 }
    }
    fn gen_case(&self, seed: u64, _idx: usize, _tier: &str, avoid: &[String]) -> Case {
        let mut rng = Rng::new(seed, "workload");
        let mut k = gen_knobs(&mut rng, avoid);
        // txn, abandon, compact, create_index, close_reopen, drop_reopen, vacuum
        k.w_top = [40, 0, *rng.pick(&[0, 4]), 0, *rng.pick(&[3, 8]), *rng.pick(&[3, 8]), 0];
        k.n_ops = rng.range(2, 14) as usize;
        k.big_values = false;
        k.w_txn = [8, 0, 0, 2, 0, if avoid.iter().any(|a| a == "vector_node_delete") { 0 } else { 2 }, 1, 0, 0, 0, 16];
        k.max_live_nodes = *rng.pick(&[3usize, 5, 8, 12]);
        if rng.chance(0.04) {
            // bulk configuration: hundreds of vectors so that the vector / graph B-trees split
            k.max_live_nodes = 700;
            k.max_txn_ops = 120;
            k.n_ops = rng.range(6, 12) as usize;
            k.w_txn = [10, 0, 0, 0, 0, 0, 0, 0, 0, 0, 14];
            k.w_top = [40, 0, 0, 0, 6, 6, 0];
        }
        let ops = gen_history(&mut rng, &k);
        Case {
            property: "C31".into(),
            config: "vector_histories".into(),
            seed,
            knobs: serde_json::to_value(&k).unwrap(),
            ops: ops_to_json(&ops),
            ..Default::default()
        }
    }
    fn valid(&self, case: &Case) -> bool {
        valid_history(&ops_of(case))
    }
    fn run_case(&self, case: &Case) -> CaseResult {
        let mut res = CaseResult::default();
        let ops = ops_of(case);
        let avoid: Vec<String> = case.knobs.get("avoid").and_then(|a| serde_json::from_value(a.clone()).ok()).unwrap_or_default();
        let no_reinsert = avoid.iter().any(|a| a == "vector_reinsert");
        let sb = Sandbox::new("c31");
        let world = World::new(&sb.dir, case.seed);
        let _g = world.install();
        let mut r = match Runner::open(&sb.dir) {
            Ok(r) => r,
            Err(e) => {
                res.harness_error = Some(e);
                return res;
            }
        };
        let mut ever: BTreeSet<u32> = BTreeSet::new();
        res.stats.sample(json!({ "seed": case.seed, "m": hnsw_m(), "ops": ops.iter().map(|o| o.kind()).collect::<Vec<_>>() }));
        for (i, op) in ops.iter().enumerate() {
            // under the avoidance constraint a node gets a vector at most once
            let op = if no_reinsert {
                match op {
                    Op::Txn { ops: tops, commit } => {
                        let mut seen_here: BTreeSet<u32> = BTreeSet::new();
                        let filtered: Vec<TOp> = tops
                            .iter()
                            .filter(|t| match t {
                                TOp::SetVector { node, .. } => !ever.contains(node) && seen_here.insert(*node),
                                _ => true,
                            })
                            .cloned()
                            .collect();
                        Op::Txn { ops: filtered, commit: *commit }
                    }
                    o => o.clone(),
                }
            } else {
                op.clone()
            };
            if let Op::Txn { ops: tops, .. } = &op {
                for t in tops {
                    if let TOp::SetVector { node, .. } = t {
                        if ever.contains(node) {
                            res.stats.inc("probe:vector_reinserted");
                        }
                        ever.insert(*node);
                    }
                }
            }
            let before = if matches!(op, Op::CloseReopen | Op::DropReopen) {
                Some(probe_queries().iter().map(|q| r.engine().search_vector(q, 50).ok()).collect::<Vec<_>>())
            } else {
                None
            };
            let out = r.exec(&op);
            res.stats.inc("evaluations");
            if !out.ok || r.engine.is_none() {
                res.viols.push(Viol {
                    class: format!("{}:{}", op.kind(), if out.panicked { "op_panicked" } else { "op_failed" }),
                    detail: format!("op {i} ({}): {:?}", op.kind(), out.err),
                    focus: None,
                    schedule: None,
                });
                return res;
            }
            if let Some(b) = before {
                let after: Vec<_> = probe_queries().iter().map(|q| r.engine().search_vector(q, 50).ok()).collect();
                if format!("{b:?}") != format!("{after:?}") {
                    res.viols.push(Viol {
                        class: format!("{}:results_changed_by_reopen", op.kind()),
                        detail: format!("op {i} ({}): before {b:?}, after {after:?}", op.kind()),
                        focus: None,
                        schedule: None,
                    });
                    return res;
                }
                res.stats.inc("probe:reopen_with_vectors");
            }
            res.stats.see("vector_states", crate::prng::fnv(&format!("{:?}{}", r.model.vectors, op.kind())));
            if r.model.vectors.len() <= 2 * hnsw_m() + 1 {
                res.stats.inc("probe:small_index_exactness_checked");
            } else {
                res.stats.inc("probe:large_index");
            }
            let d = vector_discrepancies(r.engine(), &r.model, ever.len());
            if let Some((c, t)) = d.first() {
                res.viols.push(Viol { class: format!("{}:{c}", op.kind()), detail: format!("after op {i} ({}): {t}", op.kind()), focus: None, schedule: None });
                return res;
            }
        }
        res
    }
    fn rule(&self) -> String {
        "Generated L1 histories dominated by set_vector (3-dimensional small-integer vectors: many ties and duplicates, re-insertion for the same node, nodes deleted afterwards), with close/drop + reopen and compaction events; HNSW levels are drawn from the simulator's PRNG stream (one seed = one index shape) and the link count is 2 so that the '<= 2m+1 vectors => exact' clause is reached. After every operation three probe queries with k in {1,3,50}: at most k results, distinct ids, each an existing node with a stored vector, distances non-decreasing and bit-equal to the Euclidean distance to the node's current vector; for small indexes the distance sequence equals brute force; results identical before and after reopen. evaluations = operations checked; distinct_nontrivial = distinct (vector map, op kind) states.".into()
    }
    fn nontrivial_set(&self) -> &'static str {
        "vector_states"
    }
    fn assumptions(&self) -> Vec<String> {
        vec!["NERVUSDB_HNSW_M=2 for the whole process (the parameter is read from the process environment at open); ef parameters stay at their defaults.".into()]
    }
    fn real_vs_stub(&self) -> serde_json::Value {
        json!({
            "real": ["HNSW index logic and its persistent vector/graph B-trees", "engine open/close paths"],
            "stub": ["HNSW level randomness (seeded stream)", "fsync"],
            "not_run": ["bindings"]
        })
    }
}
