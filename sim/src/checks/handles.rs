//! C10: only one handle writes a database at a time (two handles on one
//! simulated directory, interleaved). C29: backups restore a consistent
//! committed state (backup thread vs writer thread under the scheduler).

use crate::checks::conc::{Program, gen_mode, run_threads};
use crate::checks::lifecycle::{classes_of, ops_of, ops_to_json, valid_history};
use crate::dump::dump_snapshot;
use crate::framework::{Case, CaseResult, Check, Viol};
use crate::l1::{Runner, Sandbox, apply_top, gen_history, gen_knobs, open_engine};
use crate::model::{GraphState, Model, Op, TOp};
use crate::prng::Rng;
use crate::sched::{Outcome, SchedMode};
use crate::world::World;
use ndb_api::GraphStore;
use ndb_storage::engine::GraphEngine;
use serde::{Deserialize, Serialize};
use serde_json::json;
use std::sync::atomic::{AtomicU64, Ordering};
use std::sync::{Arc, Mutex};

pub fn checks() -> Vec<&'static dyn Check> {
    static C10: TwoHandles = TwoHandles;
    static C29: BackupCheck = BackupCheck;
    vec![&C10, &C29]
}

// ---------------------------------------------------------------------------

#[derive(Serialize, Deserialize, Clone, Debug, PartialEq)]
pub enum HAct {
    Open,
    /// commit a transaction creating one node with this external id and property
    Commit { ext: u64 },
    Compact,
    Close,
    Drop,
}

pub struct TwoHandles;

#[derive(Serialize, Deserialize, Clone, Debug)]
pub struct OverlapParams {
    pub mode: SchedMode,
    pub commits: usize,
    pub opens: usize,
    pub compact_after: Option<usize>,
    pub step_cap: u64,
}

impl TwoHandles {
    /// The owner commits while a second thread tries to open the same files: every attempt
    /// must be refused, and a refused attempt must leave the owner's files alone.
    fn run_overlap(&self, case: &Case) -> CaseResult {
        let mut res = CaseResult::default();
        let params: OverlapParams = match serde_json::from_value(case.params.clone()) {
            Ok(p) => p,
            Err(e) => {
                res.harness_error = Some(format!("bad params: {e}"));
                return res;
            }
        };
        let _shared = SPAWN_GATE.read().unwrap_or_else(|p| p.into_inner());
        let sb = Sandbox::new("c10o");
        let (ndb, wal) = (sb.ndb(), sb.wal());
        let slot: Arc<Mutex<Option<Arc<GraphEngine>>>> = Arc::new(Mutex::new(None));
        let acked: Arc<Mutex<Vec<u64>>> = Arc::new(Mutex::new(Vec::new()));
        let opened: Arc<Mutex<Vec<Result<(), String>>>> = Arc::new(Mutex::new(Vec::new()));
        let mut programs: Vec<(String, Program)> = Vec::new();
        {
            let slot = slot.clone();
            let acked = acked.clone();
            let (commits, compact_after) = (params.commits, params.compact_after);
            programs.push((
                "owner".into(),
                Box::new(move || {
                    let engine = slot.lock().unwrap().clone().unwrap();
                    for i in 0..commits {
                        let ext = 100 + 2 * i as u64;
                        let mut tx = engine.begin_write();
                        let ok = (|| -> Result<(), String> {
                            let l = tx.get_or_create_label("H").map_err(|e| e.to_string())?;
                            let r = tx.get_or_create_rel_type("R").map_err(|e| e.to_string())?;
                            let a = tx.create_node(ext, l).map_err(|e| e.to_string())?;
                            let b = tx.create_node(ext + 1, l).map_err(|e| e.to_string())?;
                            tx.create_edge(a, r, b);
                            tx.set_node_property(a, "k0".into(), ndb_storage::property::PropertyValue::Int(ext as i64));
                            tx.set_node_property(b, "k0".into(), ndb_storage::property::PropertyValue::Int(ext as i64 + 1));
                            Ok(())
                        })();
                        if ok.is_ok() && tx.commit().is_ok() {
                            acked.lock().unwrap().push(ext);
                        }
                        if compact_after == Some(i) {
                            let _ = engine.compact();
                        }
                    }
                }),
            ));
        }
        {
            let opened = opened.clone();
            let (ndb, wal, opens) = (ndb.clone(), wal.clone(), params.opens);
            programs.push((
                "second_opener".into(),
                Box::new(move || {
                    for _ in 0..opens {
                        let r = open_engine(&ndb, &wal).map(|e| drop(e));
                        opened.lock().unwrap().push(r);
                    }
                }),
            ));
        }
        let slot2 = slot.clone();
        let mut open_err = None;
        let run = run_threads(&sb.dir, case.seed, params.mode.clone(), params.step_cap, case.schedule.clone(), programs, |world| {
            let _g = world.install();
            match open_engine(&ndb, &wal) {
                Ok(e) => *slot2.lock().unwrap() = Some(Arc::new(e)),
                Err(e) => open_err = Some(e),
            }
        });
        *slot.lock().unwrap() = None;
        if let Some(e) = open_err {
            res.harness_error = Some(e);
            return res;
        }
        res.stats.inc("evaluations");
        res.stats.inc("config:overlapping_open");
        res.stats.add("sched_steps", run.steps);
        res.stats.see("interleavings", run.ctx_hash);
        let schedule = Some(run.decisions.clone());
        match &run.outcome {
            Err(e) => {
                res.harness_error = Some(format!("scheduler: {e}"));
                return res;
            }
            Ok(Outcome::Completed) => {}
            Ok(_) => {
                res.stats.inc("inconclusive");
                return res;
            }
        }
        for (name, msg) in &run.panics {
            res.viols.push(Viol { class: format!("panic:{name}"), detail: msg.clone(), focus: None, schedule: schedule.clone() });
        }
        let attempts = opened.lock().unwrap().clone();
        if attempts.iter().any(|r| r.is_ok()) {
            res.stats.inc("probe:second_open_succeeded");
            res.viols.push(Viol {
                class: "two_handles_open".into(),
                detail: "a second handle was opened on the same files while the owner was committing".into(),
                focus: None,
                schedule,
            });
            return res;
        }
        res.stats.add("probe:second_open_refused", attempts.len() as u64);
        // the refused attempts must not have touched the owner's files
        let world = World::new(&sb.dir, case.seed);
        let _g = world.install();
        let acked = acked.lock().unwrap().clone();
        match open_engine(&ndb, &wal) {
            Err(e) => res.viols.push(Viol {
                class: format!("refused_open_damaged_database:{}", crate::checks::crash::err_class(&e)),
                detail: format!("after {} acknowledged commits and {} refused opens the database no longer opens: {e}", acked.len(), attempts.len()),
                focus: None,
                schedule,
            }),
            Ok(e) => {
                let snap = e.snapshot();
                let d = dump_snapshot(&snap, 0);
                let mut bad: Vec<String> = d.inv.iter().map(|(c, t)| format!("[inv:{c}] {t}")).collect();
                for ext in &acked {
                    for x in [*ext, *ext + 1] {
                        match d.g.nodes.values().find(|n| n.ext == x) {
                            None => bad.push(format!("acknowledged node ext {x} is missing")),
                            Some(n) => {
                                if n.props.get("k0").map(|v| v.as_str()) != Some(format!("i:{x}").as_str()) {
                                    bad.push(format!("node ext {x}: k0 = {:?}", n.props.get("k0")));
                                }
                            }
                        }
                    }
                }
                let edges: u32 = d.g.edges.values().map(|e| e.count).sum();
                if (edges as usize) < acked.len() {
                    bad.push(format!("{} relationships for {} acknowledged commits", edges, acked.len()));
                }
                if !bad.is_empty() {
                    res.viols.push(Viol {
                        class: "refused_open_damaged_database:content".into(),
                        detail: format!("after {} acknowledged commits and {} refused opens: {}", acked.len(), attempts.len(), bad.join("; ")),
                        focus: None,
                        schedule,
                    });
                }
            }
        }
        res
    }
}

/// Perform one action on an (optional) engine; `Ok(true)` = acknowledged commit.
fn do_act(slot: &mut Option<GraphEngine>, act: &HAct, ndb: &std::path::Path, wal: &std::path::Path) -> Result<bool, String> {
    match act {
        HAct::Open => {
            *slot = Some(open_engine(ndb, wal)?);
            Ok(false)
        }
        HAct::Commit { ext } => {
            let e = slot.as_ref().ok_or("not open")?;
            let mut tx = e.begin_write();
            let l = tx.get_or_create_label("H").map_err(|e| e.to_string())?;
            let n = tx.create_node(*ext, l).map_err(|e| e.to_string())?;
            tx.set_node_property(n, "k0".into(), ndb_api::PropertyValue::Int(*ext as i64));
            tx.commit().map_err(|e| e.to_string())?;
            Ok(true)
        }
        HAct::Compact => {
            let _ = slot.as_ref().ok_or("not open")?.compact();
            Ok(false)
        }
        HAct::Close => {
            let e = slot.take().ok_or("not open")?;
            let _ = e.checkpoint_on_close();
            Ok(false)
        }
        HAct::Drop => {
            *slot = None;
            Ok(false)
        }
    }
}

/// Child process of the two-process configuration: one JSON `HAct` per stdin line,
/// one reply line (`ok`, `acked`, `err <message>`) per action.
pub fn handle_server(ndb: &std::path::Path, wal: &std::path::Path) -> i32 {
    use std::io::{BufRead, Write};
    let stdin = std::io::stdin();
    let mut out = std::io::stdout();
    let mut slot: Option<GraphEngine> = None;
    for line in stdin.lock().lines() {
        let Ok(line) = line else { break };
        let Ok(act) = serde_json::from_str::<HAct>(&line) else {
            let _ = writeln!(out, "err bad action");
            let _ = out.flush();
            continue;
        };
        let reply = match std::panic::catch_unwind(std::panic::AssertUnwindSafe(|| do_act(&mut slot, &act, ndb, wal))) {
            Ok(Ok(true)) => "acked".to_string(),
            Ok(Ok(false)) => "ok".to_string(),
            Ok(Err(e)) => format!("err {}", e.replace('\n', " ")),
            Err(_) => "err panic".to_string(),
        };
        let _ = writeln!(out, "{reply}");
        let _ = out.flush();
    }
    0
}

/// fork+exec in a multi-threaded process: between fork and exec the child holds copies of
/// every descriptor of every worker thread, including their advisory locks, so a database
/// closed and reopened by another worker in that window looks locked. Spawns therefore
/// exclude running cases.
static SPAWN_GATE: std::sync::RwLock<()> = std::sync::RwLock::new(());

struct RemoteHandle {
    child: std::process::Child,
    stdin: std::process::ChildStdin,
    stdout: std::io::BufReader<std::process::ChildStdout>,
}

impl RemoteHandle {
    fn spawn(ndb: &std::path::Path, wal: &std::path::Path) -> Result<Self, String> {
        let exe = std::env::current_exe().map_err(|e| e.to_string())?;
        let mut child = std::process::Command::new(exe)
            .arg("handle-server")
            .arg(ndb)
            .arg(wal)
            .stdin(std::process::Stdio::piped())
            .stdout(std::process::Stdio::piped())
            .stderr(std::process::Stdio::null())
            .spawn()
            .map_err(|e| format!("spawn: {e}"))?;
        let stdin = child.stdin.take().ok_or("no stdin")?;
        let stdout = std::io::BufReader::new(child.stdout.take().ok_or("no stdout")?);
        Ok(RemoteHandle { child, stdin, stdout })
    }
    fn act(&mut self, act: &HAct) -> Result<bool, String> {
        use std::io::{BufRead, Write};
        writeln!(self.stdin, "{}", serde_json::to_string(act).unwrap()).map_err(|e| format!("HARNESS pipe: {e}"))?;
        self.stdin.flush().map_err(|e| format!("HARNESS pipe: {e}"))?;
        let mut line = String::new();
        self.stdout.read_line(&mut line).map_err(|e| format!("HARNESS pipe: {e}"))?;
        match line.trim() {
            "acked" => Ok(true),
            "ok" => Ok(false),
            "" => Err("HARNESS child process ended".into()),
            other => Err(other.trim_start_matches("err ").to_string()),
        }
    }
}

impl Drop for RemoteHandle {
    fn drop(&mut self) {
        let _ = self.child.kill();
        let _ = self.child.wait();
    }
}

impl Check for TwoHandles {
    fn id(&self) -> &'static str {
        "C10"
    }
    fn budget(&self, tier: &str) -> usize {
        if tier == "thorough" { 800_000 } else { 20_000 }
    }
    fn gen_case(&self, seed: u64, _idx: usize, _tier: &str, _avoid: &[String]) -> Case {
        let mut rng = Rng::new(seed, "workload");
        let n = rng.range(3, 14) as usize;
        let mut open = [false, false];
        let mut steps: Vec<(usize, HAct)> = Vec::new();
        let mut ext = 100u64;
        for _ in 0..n {
            let h = rng.usize_below(2);
            let act = if !open[h] {
                open[h] = true;
                HAct::Open
            } else {
                match rng.below(10) {
                    0..=4 => {
                        ext += 1;
                        HAct::Commit { ext }
                    }
                    5 => HAct::Compact,
                    6 | 7 => {
                        open[h] = false;
                        HAct::Close
                    }
                    _ => {
                        open[h] = false;
                        HAct::Drop
                    }
                }
            };
            steps.push((h, act));
        }
        if rng.chance(0.25) {
            // the second open overlaps the owner's commits at I/O-step granularity
            let params = OverlapParams {
                mode: gen_mode(&mut rng),
                commits: rng.range(1, 4) as usize,
                opens: rng.range(1, 3) as usize,
                compact_after: if rng.chance(0.3) { Some(rng.below(3) as usize) } else { None },
                step_cap: 100_000,
            };
            return Case {
                property: "C10".into(),
                config: "overlapping_open".into(),
                seed,
                params: serde_json::to_value(&params).unwrap(),
                ..Default::default()
            };
        }
        Case {
            property: "C10".into(),
            // handle B lives in a second OS process in a small share of the cases
            config: if rng.chance(0.03) { "two_processes".into() } else { "two_handles".into() },
            seed,
            ops: steps.iter().map(|s| serde_json::to_value(s).unwrap()).collect(),
            ..Default::default()
        }
    }
    fn valid(&self, case: &Case) -> bool {
        // well-formed per handle: Open only when closed, others only when open
        let mut open = [false, false];
        for v in &case.ops {
            let Ok((h, act)) = serde_json::from_value::<(usize, HAct)>(v.clone()) else { return false };
            match act {
                HAct::Open => {
                    if open[h] {
                        return false;
                    }
                    open[h] = true;
                }
                HAct::Close | HAct::Drop => {
                    if !open[h] {
                        return false;
                    }
                    open[h] = false;
                }
                _ => {
                    if !open[h] {
                        return false;
                    }
                }
            }
        }
        true
    }
    fn run_case(&self, case: &Case) -> CaseResult {
        if case.config == "overlapping_open" {
            return self.run_overlap(case);
        }
        let mut res = CaseResult::default();
        let steps: Vec<(usize, HAct)> = case.ops.iter().filter_map(|v| serde_json::from_value(v.clone()).ok()).collect();
        let sb = Sandbox::new("c10");
        let world = World::new(&sb.dir, case.seed);
        let _g = world.install();
        let two_proc = case.config == "two_processes";
        let (ndb, wal) = (sb.ndb(), sb.wal());
        let mut local: [Option<GraphEngine>; 2] = [None, None];
        let mut remote: Option<RemoteHandle> = if two_proc {
            let _excl = SPAWN_GATE.write().unwrap_or_else(|p| p.into_inner());
            match RemoteHandle::spawn(&ndb, &wal) {
                Ok(r) => Some(r),
                Err(e) => {
                    res.harness_error = Some(e);
                    return res;
                }
            }
        } else {
            None
        };
        let _shared = SPAWN_GATE.read().unwrap_or_else(|p| p.into_inner());
        res.stats.inc(if two_proc { "config:two_processes" } else { "config:one_process" });
        let mut is_open = [false, false];
        // a handle whose open was refused stays "closed"; its later actions are skipped
        let mut refused = [false, false];
        let mut acked: Vec<u64> = Vec::new();
        let mut both_open_at: Option<usize> = None;
        res.stats.inc("evaluations");
        res.stats.see("interleavings", crate::prng::fnv(&format!("{two_proc}{steps:?}")));
        for (i, (h, act)) in steps.iter().enumerate() {
            if !matches!(act, HAct::Open) && (refused[*h] || !is_open[*h]) {
                if matches!(act, HAct::Close | HAct::Drop) {
                    refused[*h] = false;
                }
                continue;
            }
            let r = match (&mut remote, *h) {
                (Some(rm), 1) => rm.act(act),
                _ => do_act(&mut local[*h], act, &ndb, &wal),
            };
            if let Err(e) = &r
                && e.starts_with("HARNESS")
            {
                res.harness_error = Some(e.clone());
                return res;
            }
            match act {
                HAct::Open => match r {
                    Ok(_) => {
                        is_open[*h] = true;
                        refused[*h] = false;
                        if is_open[1 - *h] {
                            res.stats.inc("probe:second_open_succeeded");
                            both_open_at.get_or_insert(i);
                        }
                    }
                    Err(e) => {
                        refused[*h] = true;
                        if is_open[1 - *h] {
                            res.stats.inc("probe:second_open_refused");
                        } else {
                            res.viols.push(Viol {
                                class: "open_refused_without_other_handle".into(),
                                detail: format!("step {i}: open failed although no other handle is open: {e}"),
                                focus: None,
                                schedule: None,
                            });
                            return res;
                        }
                    }
                },
                HAct::Commit { ext } => {
                    if matches!(r, Ok(true)) {
                        acked.push(*ext);
                    }
                }
                HAct::Compact => {}
                HAct::Close | HAct::Drop => is_open[*h] = false,
            }
        }
        res.stats.sample(json!({ "seed": case.seed, "steps": steps.iter().map(|(h, a)| format!("{}:{a:?}", ["A", "B"][*h])).collect::<Vec<_>>() }));
        if let Some(at) = both_open_at {
            // show the consequence: close everything, reopen, compare with the acknowledged commits
            local = [None, None];
            remote = None;
            let consequence = match open_engine(&sb.ndb(), &sb.wal()) {
                Ok(e) => {
                    let snap = e.snapshot();
                    let d = dump_snapshot(&snap, 0);
                    let present: std::collections::BTreeSet<u64> = d.g.nodes.values().map(|n| n.ext).collect();
                    let lost: Vec<u64> = acked.iter().copied().filter(|x| !present.contains(x)).collect();
                    if lost.is_empty() && d.inv.is_empty() {
                        "all acknowledged commits happen to be present after reopen".to_string()
                    } else {
                        format!("after reopen acknowledged commits {lost:?} are lost; invariants {:?}", d.inv.iter().map(|(c, _)| c.clone()).collect::<Vec<_>>())
                    }
                }
                Err(e) => format!("the database no longer opens: {e}"),
            };
            res.viols.push(Viol {
                class: "two_handles_open".into(),
                detail: format!("step {at}: a second handle was opened on the same files while the first was still open; {consequence}"),
                focus: None,
                schedule: None,
            });
        }
        res
    }
    fn rule(&self) -> String {
        "Two handles on one database path, sharing nothing but the directory: both in this process, or (3% of the cases, config two_processes) the second one in a separate OS process driven over a pipe, one action at a time; a PRNG-chosen interleaving of open / commit / compact / close / drop actions of both. In a quarter of the cases (config overlapping_open) the owner commits on one simulated thread while a second thread repeatedly tries to open the same files, interleaved at I/O-step granularity by the seeded scheduler: every attempt must be refused and, after the run, the database must reopen with every acknowledged commit intact (a refused open must not touch the owner's files). Violation: an open succeeds while the other handle is open (the replay then closes both, reopens and reports which acknowledged commits were lost), or an open is refused although no other handle is open. evaluations = simulated interleavings; distinct_nontrivial = distinct action sequences.".into()
    }
    fn nontrivial_set(&self) -> &'static str {
        "interleavings"
    }
    fn assumptions(&self) -> Vec<String> {
        vec![
            "In the one-process configuration cross-process exclusion is represented by the fact that the two engines share only the files; the two-process configuration runs the second handle in a real second process (its file operations go to the same tmpfs directory, outside the I/O journal, which this check does not use).".into(),
            "The interleaving is at action granularity (a handle's action completes before the other handle's next one starts); overlapping opens of two processes are not explored.".into(),
        ]
    }
}

// ---------------------------------------------------------------------------

#[derive(Serialize, Deserialize, Clone, Debug)]
pub struct BackupParams {
    pub mode: SchedMode,
    /// false: the backup runs after the writer has finished (quiescent)
    pub concurrent: bool,
    pub step_cap: u64,
    /// ops[..prefix_len] run before the threads start (so that the backup can meet a
    /// database that was compacted earlier); the rest runs against the backup
    #[serde(default)]
    pub prefix_len: usize,
    /// the writer ends with the close-time checkpoint (log rewrite when no run is left)
    #[serde(default)]
    pub close_at_end: bool,
}

pub struct BackupCheck;

fn exec_shared(engine: &GraphEngine, model: &mut Model, op: &Op) -> Result<(), String> {
    match op {
        Op::Txn { ops, commit } => {
            let mut cand = model.clone();
            let mut tx = engine.begin_write();
            for t in ops {
                apply_top(&mut tx, t, &cand)?;
                cand.apply(t);
            }
            if *commit {
                tx.commit().map_err(|e| format!("commit: {e}"))?;
                *model = cand;
            }
            Ok(())
        }
        Op::Compact => engine.compact().map_err(|e| format!("compact: {e}")),
        Op::CreateIndex { label, prop } => engine.create_index(label, prop).map_err(|e| format!("create_index: {e}")),
        _ => Ok(()),
    }
}

impl Check for BackupCheck {
    fn id(&self) -> &'static str {
        "C29"
    }
    fn budget(&self, tier: &str) -> usize {
        if tier == "thorough" { 250_000 } else { 8_000 }
    }
    fn gen_case(&self, seed: u64, _idx: usize, _tier: &str, avoid: &[String]) -> Case {
        let mut rng = Rng::new(seed, "workload");
        let mut k = gen_knobs(&mut rng, avoid);
        k.w_top = [40, 2, *rng.pick(&[0, 8]), 2, 0, 0, 0];
        k.n_ops = rng.range(1, 6) as usize;
        k.max_txn_ops = rng.range(1, 5) as usize;
        k.big_values = rng.chance(0.1);
        let concurrent = !avoid.iter().any(|a| a == "backup_concurrent_with_writer") && rng.chance(0.7);
        let mut ops = gen_history(&mut rng, &k);
        let mode = gen_mode(&mut rng);
        let prefix_len = if concurrent && rng.chance(0.5) { rng.range(0, ops.len() as u64) as usize } else { 0 };
        let mut close_at_end = rng.chance(0.5);
        if concurrent && avoid.iter().any(|a| a == "backup_concurrent_with_close") {
            // F45: the close-time log rewrite is not coordinated with a running backup either
            close_at_end = false;
        }
        if avoid.iter().any(|a| a == "label_ops_with_checkpoint") {
            // F05: the close-time log rewrite drops every label but the creation label
            let label_rich = ops.iter().any(|o| match o {
                Op::Txn { ops, .. } => ops.iter().any(|t| match t {
                    crate::model::TOp::CreateNode { labels, .. } => labels.len() > 1,
                    crate::model::TOp::AddLabel { .. } | crate::model::TOp::RemoveLabel { .. } => true,
                    _ => false,
                }),
                _ => false,
            });
            if label_rich {
                close_at_end = false;
            }
        }
        if concurrent && avoid.iter().any(|a| a == "backup_concurrent_with_compaction") {
            // F20: no compaction while the backup may be running (the prefix may compact)
            let mut i = 0;
            ops.retain(|o| {
                i += 1;
                i <= prefix_len || !matches!(o, Op::Compact)
            });
        }
        let params = BackupParams { mode, concurrent, step_cap: 200_000, prefix_len: prefix_len.min(ops.len()), close_at_end };
        Case {
            property: "C29".into(),
            config: if concurrent { "backup_vs_writer".into() } else { "backup_quiescent".into() },
            seed,
            knobs: serde_json::to_value(&k).unwrap(),
            ops: ops_to_json(&ops),
            params: serde_json::to_value(&params).unwrap(),
            ..Default::default()
        }
    }
    fn valid(&self, case: &Case) -> bool {
        valid_history(&ops_of(case))
    }
    fn run_case(&self, case: &Case) -> CaseResult {
        let mut res = CaseResult::default();
        let ops = ops_of(case);
        let params: BackupParams = match serde_json::from_value(case.params.clone()) {
            Ok(p) => p,
            Err(e) => {
                res.harness_error = Some(format!("bad params: {e}"));
                return res;
            }
        };
        let sb = Sandbox::new("c29");
        let mut states: Vec<GraphState> = vec![GraphState::default()];
        let mut probe = 0;
        {
            let mut m = Model::default();
            for op in &ops {
                if let Op::Txn { ops, commit: true } = op {
                    for t in ops {
                        m.apply(t);
                    }
                }
                states.push(m.g.clone());
            }
            probe = probe.max(m.next_iid);
        }
        let engine_slot: Arc<Mutex<Option<Arc<GraphEngine>>>> = Arc::new(Mutex::new(None));
        let ev = Arc::new(AtomicU64::new(1));
        let op_events: Arc<Mutex<Vec<(u64, u64)>>> = Arc::new(Mutex::new(Vec::new()));
        let prefix_model: Arc<Mutex<Model>> = Arc::new(Mutex::new(Model::default()));
        let backup_result: Arc<Mutex<Option<(u64, u64, Result<String, String>)>>> = Arc::new(Mutex::new(None));
        let werr: Arc<Mutex<Option<String>>> = Arc::new(Mutex::new(None));
        let backup_dir = sb.dir.join("backups");
        let db_path = sb.ndb();
        let mut programs: Vec<(String, Program)> = Vec::new();
        {
            let slot = engine_slot.clone();
            let ev = ev.clone();
            let op_events = op_events.clone();
            let ops2 = ops[params.prefix_len.min(ops.len())..].to_vec();
            let werr = werr.clone();
            let pm = prefix_model.clone();
            let close_at_end = params.close_at_end;
            programs.push((
                "writer".into(),
                Box::new(move || {
                    let engine = slot.lock().unwrap().clone().unwrap();
                    let mut model = pm.lock().unwrap().clone();
                    for op in &ops2 {
                        let b = ev.fetch_add(1, Ordering::SeqCst);
                        let r = exec_shared(&engine, &mut model, op);
                        let a = ev.fetch_add(1, Ordering::SeqCst);
                        op_events.lock().unwrap().push((b, a));
                        if let Err(e) = r {
                            *werr.lock().unwrap() = Some(e);
                            return;
                        }
                    }
                    if close_at_end && let Err(e) = engine.checkpoint_on_close() {
                        *werr.lock().unwrap() = Some(format!("checkpoint_on_close: {e}"));
                    }
                }),
            ));
        }
        if params.concurrent {
            let ev = ev.clone();
            let out = backup_result.clone();
            let bdir = backup_dir.clone();
            let dbp = db_path.clone();
            programs.push((
                "backup".into(),
                Box::new(move || {
                    let inv = ev.fetch_add(1, Ordering::SeqCst);
                    let r = ndb_core::backup(&dbp, &bdir).map(|info| info.id.to_string()).map_err(|e| e.to_string());
                    let ret = ev.fetch_add(1, Ordering::SeqCst);
                    *out.lock().unwrap() = Some((inv, ret, r));
                }),
            ));
        }
        let slot2 = engine_slot.clone();
        let dir = sb.dir.clone();
        let mut open_err = None;
        let run = run_threads(&sb.dir, case.seed, params.mode.clone(), params.step_cap, case.schedule.clone(), programs, |world| {
            let _g = world.install();
            match Runner::open(&dir) {
                Ok(mut r) => {
                    let engine = r.engine.take().unwrap();
                    let mut m = Model::default();
                    for op in &ops[..params.prefix_len.min(ops.len())] {
                        if let Err(e) = exec_shared(&engine, &mut m, op) {
                            open_err = Some(format!("prefix: {e}"));
                        }
                        op_events.lock().unwrap().push((0, 0));
                    }
                    *prefix_model.lock().unwrap() = m;
                    *slot2.lock().unwrap() = Some(Arc::new(engine));
                }
                Err(e) => open_err = Some(e),
            }
        });
        if !params.concurrent && open_err.is_none() {
            // quiescent configuration: the backup runs after the writer has finished,
            // with the database still open, outside the scheduler
            let world = World::new(&sb.dir, case.seed);
            let _g = world.install();
            let inv = ev.fetch_add(1, Ordering::SeqCst);
            let r = ndb_core::backup(&db_path, &backup_dir).map(|info| info.id.to_string()).map_err(|e| e.to_string());
            let ret = ev.fetch_add(1, Ordering::SeqCst);
            *backup_result.lock().unwrap() = Some((inv, ret, r));
        }
        *engine_slot.lock().unwrap() = None;
        if let Some(e) = open_err {
            if e.starts_with("prefix:") {
                res.stats.inc("foreign_discrepancy");
            } else {
                res.harness_error = Some(e);
            }
            return res;
        }
        res.stats.inc("evaluations");
        res.stats.add("sched_steps", run.steps);
        res.stats.add("context_switches", run.switches);
        res.stats.see("schedules", run.ctx_hash);
        res.stats.inc(if params.concurrent { "config:concurrent" } else { "config:quiescent" });
        if params.close_at_end {
            res.stats.inc("probe:writer_ends_with_close_checkpoint");
        }
        if params.prefix_len > 0 {
            res.stats.inc("probe:backup_of_previously_compacted_or_filled_db");
        }
        if std::env::var("VERIF_DEBUG").is_ok() {
            eprintln!("C29CASE {} steps={} points={:?}", case.seed, run.steps, run.points);
        }
        let schedule = Some(run.decisions.clone());
        match &run.outcome {
            Err(e) => {
                res.harness_error = Some(format!("scheduler: {e}"));
                return res;
            }
            Ok(Outcome::Completed) => {}
            Ok(_) => {
                res.stats.inc("inconclusive");
                return res;
            }
        }
        if werr.lock().unwrap().is_some() {
            res.stats.inc("foreign_discrepancy");
            return res;
        }
        for (name, msg) in &run.panics {
            res.viols.push(Viol { class: format!("panic:{name}"), detail: msg.clone(), focus: None, schedule: schedule.clone() });
        }
        let Some((inv, ret, r)) = backup_result.lock().unwrap().clone() else {
            return res;
        };
        res.stats.sample(json!({
            "seed": case.seed, "ops": ops.iter().map(|o| o.kind()).collect::<Vec<_>>(), "mode": params.mode,
            "concurrent": params.concurrent, "sched_steps": run.steps,
        }));
        let id = match r {
            Ok(id) => id,
            Err(e) => {
                res.viols.push(Viol { class: "backup_failed".into(), detail: e, focus: None, schedule });
                return res;
            }
        };
        // restore into a fresh directory (no scheduler) and compare
        let evs = op_events.lock().unwrap().clone();
        let lo = evs.iter().filter(|(_, a)| *a < inv).count();
        let hi = evs.iter().filter(|(b, _)| *b < ret).count();
        if hi > lo {
            res.stats.inc("probe:backup_overlaps_writer_op");
        }
        let world = World::new(&sb.dir, case.seed);
        let _g = world.install();
        let target = sb.dir.join("restored");
        let _ = std::fs::create_dir_all(&target);
        let tdb = target.join("g.ndb");
        let uuid = match id.parse() {
            Ok(u) => u,
            Err(_) => {
                res.harness_error = Some(format!("backup id {id} is not a uuid"));
                return res;
            }
        };
        if let Err(e) = ndb_core::BackupManager::restore_from_backup(&backup_dir, uuid, &tdb) {
            res.viols.push(Viol { class: "restore_failed".into(), detail: e.to_string(), focus: None, schedule });
            return res;
        }
        let engine = match open_engine(&tdb, &target.join("g.wal")) {
            Ok(e) => e,
            Err(e) => {
                res.viols.push(Viol {
                    class: format!("restored_open_failed:{}", crate::checks::crash::err_class(&e)),
                    detail: format!("restored backup does not open (backup spanned ops {lo}..{hi}): {e}"),
                    focus: None,
                    schedule,
                });
                return res;
            }
        };
        let d = {
            let snap = engine.snapshot();
            dump_snapshot(&snap, probe)
        };
        let matched = (lo..=hi).find(|j| d.inv.is_empty() && d.g == states[*j]);
        if matched.is_none() {
            let best = (lo..=hi)
                .map(|j| {
                    let mut x = d.g.diff(&states[j]);
                    for (c, t) in &d.inv {
                        x.push((format!("inv:{c}"), t.clone()));
                    }
                    x
                })
                .min_by_key(|x| x.len())
                .unwrap_or_default();
            let detail: Vec<String> = best.iter().take(5).map(|(c, t)| format!("[{c}] {t}")).collect();
            res.viols.push(Viol {
                class: format!("{}:{}", if hi > lo { "inconsistent_backup" } else { "quiescent_backup_differs" }, classes_of(&best)),
                detail: format!("restored content equals no state S_{lo}..S_{hi}: {}", detail.join("; ")),
                focus: None,
                schedule,
            });
        }
        res
    }
    fn rule(&self) -> String {
        "A writer thread executes a generated L1 history (commits, compaction, index creation; a PRNG-chosen prefix of it runs before the threads start, and in half of the cases the writer ends with the close-time checkpoint, i.e. the log rewrite of Db::close) while a backup thread calls nervusdb::backup(path, dir); the backup's file operations are scheduling points, so writer steps land between and inside the page-file and log copies. In the quiescent configuration the backup starts after the writer has finished. After completion the backup is restored into a fresh directory, opened and dumped: the content must equal one model state S_j between the operations acknowledged before the backup began and those begun before it returned. evaluations = simulated runs; distinct_nontrivial = distinct context-switch sequences.".into()
    }
    fn nontrivial_set(&self) -> &'static str {
        "schedules"
    }
    fn assumptions(&self) -> Vec<String> {
        vec!["Reads of the source files by the backup are not scheduling points themselves; interleaving happens at the backup's writes (8 KiB copy chunks) and at every writer step.".into()]
    }
}

#[allow(dead_code)]
fn _unused(_: TOp) {}
