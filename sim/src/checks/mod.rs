//! One module per family of checks; `by_id` maps a property id to its check.

use crate::framework::Check;

pub mod capi_conc;
pub mod clock;
pub mod conc;
pub mod crash;
pub mod faults;
pub mod growth;
pub mod handles;
pub mod index;
pub mod l2checks;
pub mod lifecycle;
pub mod vector;

pub fn all() -> Vec<&'static dyn Check> {
    let mut v: Vec<&'static dyn Check> = Vec::new();
    v.extend(lifecycle::checks());
    v.extend(crash::checks());
    v.extend(conc::checks());
    v.extend(capi_conc::checks());
    v.extend(handles::checks());
    v.extend(l2checks::checks());
    v.extend(clock::checks());
    v.extend(index::checks());
    v.extend(vector::checks());
    v.extend(growth::checks());
    v.extend(faults::checks());
    v
}

pub fn by_id(id: &str) -> Option<&'static dyn Check> {
    all().into_iter().find(|c| c.id() == id)
}
