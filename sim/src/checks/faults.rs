//! C17: stored-byte faults on the log tail (every truncation offset, appended
//! garbage, bit flips), each followed by open, new commits and another reopen.
//! C08: injected I/O errors (write / partial write / fsync / set_len) at every
//! I/O step of a commit, a compaction or a close.

use crate::checks::crash::err_class;
use crate::checks::lifecycle::{classes_of, discrepancies, ops_of, ops_to_json, valid_history};
use crate::disk::{FaultKind, FaultPlan};
use crate::framework::{Case, CaseResult, Check, Viol};
use crate::l1::{Knobs, Runner, Sandbox, gen_history, gen_history_from, gen_knobs};
use crate::model::{Model, Op, TOp};
use crate::prng::Rng;
use crate::world::World;
use serde::{Deserialize, Serialize};
use serde_json::json;
use std::collections::BTreeSet;

pub fn checks() -> Vec<&'static dyn Check> {
    static C17: TailCheck = TailCheck;
    static C08: IoErrCheck = IoErrCheck;
    vec![&C17, &C08]
}

// ---------------------------------------------------------------------------
// crc32 (IEEE), independent of the implementation under test
fn crc32(bytes: &[u8]) -> u32 {
    let mut crc = 0xFFFF_FFFFu32;
    for b in bytes {
        crc ^= *b as u32;
        for _ in 0..8 {
            crc = if crc & 1 != 0 { (crc >> 1) ^ 0xEDB8_8320 } else { crc >> 1 };
        }
    }
    !crc
}

fn frame(body: &[u8]) -> Vec<u8> {
    let mut out = Vec::new();
    out.extend_from_slice(&(body.len() as u32).to_le_bytes());
    out.extend_from_slice(&crc32(body).to_le_bytes());
    out.extend_from_slice(body);
    out
}

/// Independent decoder of the log framing (debug output of replays).
pub fn wal_dump(bytes: &[u8]) -> Vec<String> {
    let mut out = Vec::new();
    let mut off = 0usize;
    while off + 8 <= bytes.len() {
        let len = u32::from_le_bytes(bytes[off..off + 4].try_into().unwrap()) as usize;
        let crc = u32::from_le_bytes(bytes[off + 4..off + 8].try_into().unwrap());
        if len == 0 || off + 8 + len > bytes.len() {
            out.push(format!("@{off}: invalid len {len} (file len {})", bytes.len()));
            return out;
        }
        let body = &bytes[off + 8..off + 8 + len];
        let ok = crc32(body) == crc;
        let ty = body[0];
        let name = match ty {
            1 => "BeginTx", 2 => "CommitTx", 3 => "PageWrite", 4 => "PageFree", 5 => "CreateNode", 6 => "CreateEdge",
            7 => "TombstoneNode", 8 => "TombstoneEdge", 9 => "ManifestSwitch", 10 => "Checkpoint", 11 => "SetNodeProperty",
            12 => "SetEdgeProperty", 13 => "RemoveNodeProperty", 14 => "RemoveEdgeProperty", 15 => "CreateLabel",
            16 => "AddNodeLabel", 17 => "RemoveNodeLabel", _ => "?",
        };
        let payload: Vec<String> = body[1..].iter().take(24).map(|b| format!("{b:02x}")).collect();
        out.push(format!("@{off}: {name} len={len} crc_ok={ok} {}", payload.join("")));
        if !ok {
            return out;
        }
        off += 8 + len;
    }
    if off < bytes.len() {
        out.push(format!("@{off}: {} trailing bytes", bytes.len() - off));
    }
    out
}

#[derive(Serialize, Deserialize, Clone, Debug, PartialEq)]
pub enum TailFault {
    Truncate { at: usize },
    AppendZeros { n: usize },
    AppendRandom { n: usize, seed: u64 },
    /// a plausible length field followed by fewer bytes than announced
    AppendLenThenGarbage { len: u32, n: usize, seed: u64 },
    AppendHugeLen { len: u32 },
    /// BeginTx + one CreateEdge record, never committed
    AppendUnfinishedTx { txid: u64 },
    /// flip one bit inside the last `back` bytes of the log
    BitFlip { back: usize, bit: u8 },
}

impl TailFault {
    fn kind(&self) -> &'static str {
        match self {
            TailFault::Truncate { .. } => "fault:tail_trunc",
            TailFault::AppendZeros { .. } => "fault:tail_zero",
            TailFault::AppendRandom { .. } => "fault:tail_random",
            TailFault::AppendLenThenGarbage { .. } => "fault:tail_lenfield",
            TailFault::AppendHugeLen { .. } => "fault:tail_hugelen",
            TailFault::AppendUnfinishedTx { .. } => "fault:tail_unfinished_tx",
            TailFault::BitFlip { .. } => "fault:tail_bitflip",
        }
    }
}

pub struct TailCheck;

/// Tail transactions must not touch the node table: truncating the log inside them must leave
/// a (page file, log) pair that a real crash could have produced.
fn gen_tail_txns(rng: &mut Rng, k: &Knobs, start: &Model, n: usize) -> Vec<Op> {
    let mut kk = k.clone();
    kk.n_ops = n;
    kk.w_top = [1, 0, 0, 0, 0, 0, 0];
    // no create_node / add_label / remove_label / set_vector
    kk.w_txn[0] = 0;
    kk.w_txn[1] = 0;
    kk.w_txn[2] = 0;
    kk.w_txn[10] = 0;
    // no node deletion either: with no live node left the generator would have to create one
    kk.w_txn[5] = 0;
    if kk.w_txn.iter().all(|w| *w == 0) {
        kk.w_txn[6] = 5;
        kk.w_txn[3] = 5;
    }
    kk.w_txn[6] = kk.w_txn[6].max(4);
    gen_history_from(rng, &kk, start)
}

fn model_after(ops: &[Op]) -> Model {
    let mut m = Model::default();
    for op in ops {
        if let Op::Txn { ops, commit: true } = op {
            for t in ops {
                m.apply(t);
            }
            m.commits += 1;
        }
        if let Op::CreateIndex { label, prop } = op {
            m.indexes.insert((label.clone(), prop.clone()));
        }
    }
    m
}

impl TailCheck {
    /// Apply one tail fault to pristine files, then open / dump / commit more / reopen / dump.
    #[allow(clippy::too_many_arguments)]
    fn try_fault(
        &self,
        ndb: &[u8],
        wal: &[u8],
        fault: &TailFault,
        expect_models: &[(usize, Model)],
        seed: u64,
        avoid: &[String],
        res: &mut CaseResult,
    ) {
        let mut w = wal.to_vec();
        let mut rng = Rng::new(seed, "faults");
        match fault {
            TailFault::Truncate { at } => w.truncate(*at),
            TailFault::AppendZeros { n } => w.extend(std::iter::repeat_n(0u8, *n)),
            TailFault::AppendRandom { n, seed } => {
                let mut r = Rng::new(*seed, "tail");
                w.extend((0..*n).map(|_| r.next_u64() as u8));
            }
            TailFault::AppendLenThenGarbage { len, n, seed } => {
                let mut r = Rng::new(*seed, "tail");
                w.extend_from_slice(&len.to_le_bytes());
                w.extend((0..*n).map(|_| r.next_u64() as u8));
            }
            TailFault::AppendHugeLen { len } => {
                w.extend_from_slice(&len.to_le_bytes());
                w.extend_from_slice(&[0xAB; 12]);
            }
            TailFault::AppendUnfinishedTx { txid } => {
                let mut b = vec![1u8];
                b.extend_from_slice(&txid.to_le_bytes());
                w.extend(frame(&b));
                let mut e = vec![6u8];
                e.extend_from_slice(&0u32.to_le_bytes());
                e.extend_from_slice(&0u32.to_le_bytes());
                e.extend_from_slice(&0u32.to_le_bytes());
                w.extend(frame(&e));
            }
            TailFault::BitFlip { back, bit } => {
                if *back < w.len() {
                    let i = w.len() - 1 - back;
                    w[i] ^= 1 << (bit % 8);
                }
            }
        }
        // which transactions are completely written in the mutated log?
        let complete_len = match fault {
            TailFault::Truncate { at } => *at,
            TailFault::BitFlip { back, .. } => wal.len().saturating_sub(back + 1),
            _ => wal.len(),
        };
        // expected = model after the last op whose end offset is <= complete_len.
        // For a bit flip the damaged record belongs to the tx that ends after it.
        let expected = expect_models.iter().rev().find(|(end, _)| *end <= complete_len).map(|(_, m)| m.clone());
        let Some(expected) = expected else { return };
        res.stats.inc(fault.kind());
        res.stats.inc("evaluations");
        res.stats.see("tail_cases", crate::prng::fnv_bytes(seed, &w[w.len().saturating_sub(64)..]) ^ w.len() as u64);

        let sb = Sandbox::new("c17");
        std::fs::write(sb.ndb(), ndb).unwrap();
        std::fs::write(sb.wal(), &w).unwrap();
        let world = World::new(&sb.dir, seed);
        let _g = world.install();
        let focus = Some(serde_json::to_value(fault).unwrap());
        let mut r = match Runner::with_model(&sb.dir, expected.clone()) {
            Ok(r) => r,
            Err(e) => {
                res.viols.push(Viol {
                    class: format!("open_failed:{}", err_class(&e)),
                    detail: format!("{fault:?}: {e}"),
                    focus,
                    schedule: None,
                });
                return;
            }
        };
        let d = r.dump();
        let diffs = discrepancies(&d, &r.model);
        if !diffs.is_empty() {
            let detail: Vec<String> = diffs.iter().take(5).map(|(c, t)| format!("[{c}] {t}")).collect();
            res.viols.push(Viol {
                class: format!("first_open:{}", classes_of(&diffs)),
                detail: format!("{fault:?}: after open: {}", detail.join("; ")),
                focus,
                schedule: None,
            });
            return;
        }
        // commit more, then reopen
        let mut k = gen_knobs(&mut rng, avoid);
        k.n_ops = rng.range(1, 3) as usize;
        k.w_top = [1, 0, 0, 0, 0, 0, 0];
        k.max_live_nodes = expected.g.nodes.len() + 3;
        k.big_values = false;
        let mut more = gen_history_from(&mut rng, &k, &expected);
        more.push(if rng.chance(0.5) && !avoid.iter().any(|a| a == "label_ops_with_checkpoint") { Op::CloseReopen } else { Op::DropReopen });
        more.push(Op::DropReopen);
        for (i, op) in more.iter().enumerate() {
            let out = r.exec(op);
            if !out.ok || r.engine.is_none() {
                res.viols.push(Viol {
                    class: format!("after_tail:{}:op_failed:{}", op.kind(), err_class(&out.err.clone().unwrap_or_default())),
                    detail: format!("{fault:?}: op {i} ({}) after recovery failed: {:?}", op.kind(), out.err),
                    focus,
                    schedule: None,
                });
                return;
            }
            let d = r.dump();
            let diffs = discrepancies(&d, &r.model);
            if !diffs.is_empty() {
                let detail: Vec<String> = diffs.iter().take(5).map(|(c, t)| format!("[{c}] {t}")).collect();
                res.viols.push(Viol {
                    class: format!("after_tail:{}:{}", op.kind(), classes_of(&diffs)),
                    detail: format!("{fault:?}: after op {i} ({}) following recovery: {}", op.kind(), detail.join("; ")),
                    focus,
                    schedule: None,
                });
                return;
            }
        }
    }
}

impl Check for TailCheck {
    fn id(&self) -> &'static str {
        "C17"
    }
    fn level(&self) -> &'static str {
        "fault_enumeration"
    }
    fn budget(&self, tier: &str) -> usize {
        if tier == "thorough" { 12_000 } else { 320 }
    }
    fn gen_case(&self, seed: u64, _idx: usize, tier: &str, avoid: &[String]) -> Case {
        let mut rng = Rng::new(seed, "workload");
        let mut k = gen_knobs(&mut rng, avoid);
        k.w_top = [40, 3, *rng.pick(&[0, 6]), 2, *rng.pick(&[0, 4]), 3, 0];
        if avoid.iter().any(|a| a == "index_with_tail_damage") {
            k.w_top[3] = 0;
        }
        k.n_ops = rng.range(1, 6) as usize;
        k.max_txn_ops = rng.range(1, 5) as usize;
        k.big_values = rng.chance(0.05);
        let mut ops = gen_history(&mut rng, &k);
        // prefix must leave at least one node for the tail transactions to work on
        if model_after(&ops).g.nodes.is_empty() {
            ops.push(Op::Txn {
                ops: vec![
                    TOp::CreateNode { ext: 900_001, labels: vec!["LA".into()] },
                    TOp::CreateNode { ext: 900_002, labels: vec![] },
                ],
                commit: true,
            });
        }
        let prefix_len = ops.len();
        let n_tail = rng.range(1, 3) as usize;
        let tail = gen_tail_txns(&mut rng, &k, &model_after(&ops), n_tail);
        ops.extend(tail);
        Case {
            property: "C17".into(),
            config: "log_tail".into(),
            seed,
            knobs: serde_json::to_value(&k).unwrap(),
            ops: ops_to_json(&ops),
            params: json!({ "prefix_len": prefix_len, "stride": if tier == "thorough" { 1 } else { 3 } }),
            ..Default::default()
        }
    }
    fn valid(&self, case: &Case) -> bool {
        let ops = ops_of(case);
        let p = case.params["prefix_len"].as_u64().unwrap_or(0) as usize;
        // the tail must stay node-table neutral
        valid_history(&ops)
            && p <= ops.len()
            && ops[p.min(ops.len())..].iter().all(|o| match o {
                Op::Txn { ops, commit: true } => ops.iter().all(|t| {
                    !matches!(t, TOp::CreateNode { .. } | TOp::AddLabel { .. } | TOp::RemoveLabel { .. } | TOp::SetVector { .. })
                }),
                _ => false,
            })
    }
    fn run_case(&self, case: &Case) -> CaseResult {
        let mut res = CaseResult::default();
        let ops = ops_of(case);
        let mut prefix_len = (case.params["prefix_len"].as_u64().unwrap_or(0) as usize).min(ops.len());
        // after minimisation the prefix may have shrunk: the tail is the longest neutral suffix
        while prefix_len > 0 && prefix_len > ops.len() {
            prefix_len -= 1;
        }
        let stride = case.params["stride"].as_u64().unwrap_or(1).max(1) as usize;
        let avoid: Vec<String> = case.knobs.get("avoid").and_then(|a| serde_json::from_value(a.clone()).ok()).unwrap_or_default();
        // 1. fault-free run; remember the log length after every op
        let sb = Sandbox::new("c17r");
        let world = World::new(&sb.dir, case.seed);
        let (ndb, wal, ends) = {
            let _g = world.install();
            let mut r = match Runner::open(&sb.dir) {
                Ok(r) => r,
                Err(e) => {
                    res.harness_error = Some(e);
                    return res;
                }
            };
            let mut ends: Vec<(usize, Model)> = Vec::new();
            for op in &ops {
                let out = r.exec(op);
                if !out.ok {
                    res.stats.inc("foreign_discrepancy");
                    return res;
                }
                let len = std::fs::metadata(sb.wal()).map(|m| m.len() as usize).unwrap_or(0);
                ends.push((len, r.model.clone()));
            }
            drop(r);
            (std::fs::read(sb.ndb()).unwrap_or_default(), std::fs::read(sb.wal()).unwrap_or_default(), ends)
        };
        if prefix_len == 0 || prefix_len > ends.len() {
            return res;
        }
        // only states from the end of the prefix on are reachable by tail faults
        let tail_start = ends[prefix_len - 1].0;
        let expect: Vec<(usize, Model)> = ends[prefix_len - 1..].to_vec();
        if wal.len() < tail_start {
            // the prefix ended with a log rewrite; nothing to do
            return res;
        }
        res.stats.sample(json!({
            "seed": case.seed,
            "ops": ops.iter().map(|o| o.kind()).collect::<Vec<_>>(),
            "log_bytes": wal.len(),
            "tail_region": [tail_start, wal.len()],
        }));
        let mut faults: Vec<TailFault> = Vec::new();
        if let Some(f) = &case.focus {
            match serde_json::from_value::<TailFault>(f.clone()) {
                Ok(f) => faults.push(f),
                Err(e) => {
                    res.harness_error = Some(format!("bad focus: {e}"));
                    return res;
                }
            }
        } else {
            let mut rng = Rng::new(case.seed, "faults");
            let last_start = if expect.len() >= 2 { expect[expect.len() - 2].0 } else { tail_start };
            for at in tail_start..wal.len() {
                // every offset inside the last transaction, every `stride`-th elsewhere
                if at >= last_start || at % stride == 0 {
                    faults.push(TailFault::Truncate { at });
                }
            }
            for n in [1usize, 3, 4, 7, 8, 9, 64, 4096, 8192, 16384] {
                faults.push(TailFault::AppendZeros { n });
            }
            for n in [1usize, 2, 5, 8, 13, 100, 5000] {
                faults.push(TailFault::AppendRandom { n, seed: rng.next_u64() });
            }
            for (len, n) in [(16u32, 6usize), (9, 4), (200, 150), (1, 3), (1 << 20, 40)] {
                faults.push(TailFault::AppendLenThenGarbage { len, n, seed: rng.next_u64() });
            }
            for len in [(1u32 << 20) + 1, u32::MAX, 0x7fff_ffff] {
                faults.push(TailFault::AppendHugeLen { len });
            }
            faults.push(TailFault::AppendUnfinishedTx { txid: 1 << 40 });
            let span = (wal.len() - tail_start).min(96);
            for _ in 0..12 {
                faults.push(TailFault::BitFlip { back: rng.usize_below(span.max(1)), bit: rng.below(8) as u8 });
            }
        }
        let mut seen = BTreeSet::new();
        for f in &faults {
            let before = res.viols.len();
            self.try_fault(&ndb, &wal, f, &expect, case.seed, &avoid, &mut res);
            // one violation per class per case
            if res.viols.len() > before {
                let cls = res.viols.last().unwrap().class.clone();
                if !seen.insert(cls) {
                    res.viols.pop();
                }
            }
        }
        res
    }
    fn rule(&self) -> String {
        "Per generated history (arbitrary prefix, then 1-3 tail transactions that do not touch the node table, so that every mutated (page file, log) pair is one a real crash could leave): EVERY truncation offset inside the last transaction and every stride-th offset of the rest of the tail region; appended tails of zeros (1 byte .. 2 pages), random bytes, plausible length fields with too few bytes, lengths above the record limit, a well-formed unfinished transaction; single bit flips in the last 96 bytes. Each mutated log: open, dump == state after the last completely written transaction, commit 1-3 generated transactions, close or drop, reopen twice, dump == that state plus the new transactions. evaluations = mutated logs opened; distinct_nontrivial = distinct (log length, last 64 bytes) pairs.".into()
    }
    fn nontrivial_set(&self) -> &'static str {
        "tail_cases"
    }
    fn assumptions(&self) -> Vec<String> {
        vec![
            "Bit flips and truncations are confined to the bytes from the start of the tail transactions on; damage inside earlier records is outside the statement.".into(),
            "Tail transactions avoid node creation and label changes: the node table is updated after the log commit, so a log truncated inside such a transaction next to an updated node table is not a state a crash can produce (C01/C02 cover those crash points exactly).".into(),
        ]
    }
}

// ---------------------------------------------------------------------------

pub struct IoErrCheck;

#[derive(Serialize, Deserialize, Clone, Debug)]
pub struct IoFocus {
    pub target: usize,
    pub step: u64,
    pub kind: FaultKind,
    /// continue in-process before reopening?
    pub continue_in_process: bool,
}

fn creates_nodes(op: &Op) -> bool {
    matches!(op, Op::Txn { ops, .. } if ops.iter().any(|t| matches!(t, TOp::CreateNode { .. })))
}

impl IoErrCheck {
    /// Execute the history with one injected fault; judge the outcome.
    fn run_fault(&self, ops: &[Op], f: &IoFocus, seed: u64, avoid: &[String], res: &mut CaseResult) {
        let sb = Sandbox::new("c08");
        let world = World::new(&sb.dir, seed);
        let _g = world.install();
        let focus = Some(serde_json::to_value(f).unwrap());
        let push = |res: &mut CaseResult, class: String, detail: String| {
            res.viols.push(Viol { class, detail, focus: focus.clone(), schedule: None });
        };
        let mut r = match Runner::open(&sb.dir) {
            Ok(r) => r,
            Err(e) => {
                res.harness_error = Some(e);
                return;
            }
        };
        for op in &ops[..f.target] {
            if !r.exec(op).ok {
                res.stats.inc("foreign_discrepancy");
                return;
            }
        }
        let before = r.model.clone();
        world.set_fault(Some(FaultPlan { step: f.step, kind: f.kind }));
        let target = &ops[f.target];
        let out = r.exec(target);
        let fired = world.fault_fired();
        world.set_fault(None);
        let Some((_, kind0)) = fired else {
            res.stats.inc("fault_not_reached");
            return;
        };
        // region of the fault space: which file the failing call was on
        let kind_name: &str = &format!("{kind0}@{}", world.fault_file());
        res.stats.inc(&format!("fault:{kind0}"));
        res.stats.inc("evaluations");
        res.stats.see("fault_points", (f.step << 8) ^ crate::prng::fnv(kind0) ^ before.g.digest());
        let after = r.model.clone(); // == candidate if exec returned Ok
        let mut cand = before.clone();
        if let Op::Txn { ops, commit: true } = target {
            for t in ops {
                cand.apply(t);
            }
            cand.commits += 1;
        }
        let tk = target.kind();
        if out.panicked {
            push(res, format!("{tk}:{kind_name}:panic"), format!("{:?}", out.err));
            return;
        }
        // close/reopen style targets: the engine is gone or re-opened inside exec
        let reopen_target = matches!(target, Op::CloseReopen | Op::DropReopen | Op::Vacuum);
        if reopen_target {
            if r.engine.is_none() {
                // the reopen itself failed (fault during close is allowed to fail close, not the reopen)
                if let Err(e) = r.reopen() {
                    push(res, format!("{tk}:{kind_name}:open_failed:{}", err_class(&e)), format!("after a failed {tk}: {e}"));
                    return;
                }
            }
            let d = r.dump();
            let diffs = discrepancies(&d, &before);
            if !diffs.is_empty() {
                let detail: Vec<String> = diffs.iter().take(5).map(|(c, t)| format!("[{c}] {t}")).collect();
                push(res, format!("{tk}:{kind_name}:{}", classes_of(&diffs)), detail.join("; "));
            }
            return;
        }
        if out.ok {
            if matches!(target, Op::Txn { commit: true, .. }) {
                res.stats.inc("probe:op_ok_despite_fault");
            }
        } else {
            res.stats.inc("probe:op_failed_by_fault");
            r.model = before.clone();
        }
        let _ = after;
        // in-process view
        let d = r.dump();
        let diffs = discrepancies(&d, &r.model);
        if !diffs.is_empty() {
            let detail: Vec<String> = diffs.iter().take(5).map(|(c, t)| format!("[{c}] {t}")).collect();
            let tag = if out.ok { "ok_but_incomplete" } else { "err_but_visible" };
            push(res, format!("{tk}:{kind_name}:{tag}:{}", classes_of(&diffs)), format!("in-process after the faulted op: {}", detail.join("; ")));
            return;
        }
        // continuation
        let mut rng = Rng::new(seed ^ f.step, "continuation");
        let mut cont: Vec<Op> = Vec::new();
        if f.continue_in_process {
            let mut k = gen_knobs(&mut rng, avoid);
            k.n_ops = rng.range(1, 3) as usize;
            k.w_top = [6, 0, if rng.chance(0.3) && !avoid.iter().any(|a| a.starts_with("compact_after")) { 1 } else { 0 }, 0, 0, 0, 0];
            k.max_live_nodes = r.model.g.nodes.len() + 3;
        k.big_values = false;
            cont = gen_history_from(&mut rng, &k, &r.model);
            for (i, op) in cont.iter().enumerate() {
                let o = r.exec(op);
                if !o.ok {
                    let e = o.err.unwrap_or_default();
                    if e.contains("iid_mismatch") {
                        res.stats.inc("inconclusive_iid_after_failed_commit");
                        return;
                    }
                    res.stats.inc("probe:later_op_failed");
                    push(res, format!("{tk}:{kind_name}:later_op_failed:{}:{}", op.kind(), err_class(&e)), format!("op {i} after the fault: {e}"));
                    return;
                }
                let d = r.dump();
                let diffs = discrepancies(&d, &r.model);
                if !diffs.is_empty() {
                    let detail: Vec<String> = diffs.iter().take(5).map(|(c, t)| format!("[{c}] {t}")).collect();
                    push(res, format!("{tk}:{kind_name}:later:{}:{}", op.kind(), classes_of(&diffs)), detail.join("; "));
                    return;
                }
            }
            if !cont.is_empty() {
                res.stats.inc("probe:failed_commit_followed_by_successful_one");
            }
        }
        // reopen: failed transaction entirely present or entirely absent; later ones present
        let with_model = r.model.clone();
        if let Err(e) = r.reopen() {
            push(res, format!("{tk}:{kind_name}:open_failed:{}", err_class(&e)), format!("reopen after the fault: {e}"));
            return;
        }
        let d = r.dump();
        let mut admissible: Vec<Model> = vec![with_model.clone()];
        if !out.ok && matches!(target, Op::Txn { commit: true, .. }) {
            let conflict = creates_nodes(target) && cont.iter().any(creates_nodes);
            if !conflict {
                let mut alt = cand.clone();
                for op in &cont {
                    if let Op::Txn { ops, commit: true } = op {
                        for t in ops {
                            alt.apply(t);
                        }
                        alt.commits += 1;
                    }
                }
                admissible.push(alt);
            }
        }
        let best = admissible.iter().map(|m| discrepancies(&d, m)).min_by_key(|v| v.len()).unwrap_or_default();
        if !best.is_empty() && std::env::var("VERIF_DEBUG").is_ok() {
            eprintln!("--- continuation: {cont:?}");
            for l in wal_dump(&std::fs::read(sb.wal()).unwrap_or_default()) {
                eprintln!("{l}");
            }
        }
        if !best.is_empty() {
            let detail: Vec<String> = best.iter().take(5).map(|(c, t)| format!("[{c}] {t}")).collect();
            push(
                res,
                format!("{tk}:{kind_name}:after_reopen:{}", classes_of(&best)),
                format!("op returned {}; after reopen: {}", if out.ok { "Ok" } else { "Err" }, detail.join("; ")),
            );
            return;
        }
        let chosen = admissible.iter().position(|m| discrepancies(&d, m).is_empty()).unwrap_or(0);
        if chosen == 1 {
            res.stats.inc("probe:failed_commit_present_after_reopen");
        }
        // keeps accepting and durably storing later transactions
        r.model = admissible[chosen].clone();
        let mut k = gen_knobs(&mut rng, avoid);
        k.n_ops = 1;
        k.w_top = [1, 0, 0, 0, 0, 0, 0];
        k.max_live_nodes = r.model.g.nodes.len() + 3;
        k.big_values = false;
        let mut more = gen_history_from(&mut rng, &k, &r.model);
        more.push(Op::DropReopen);
        for op in &more {
            let o = r.exec(op);
            if !o.ok || r.engine.is_none() {
                let e = o.err.unwrap_or_default();
                push(res, format!("{tk}:{kind_name}:after_reopen_op_failed:{}:{}", op.kind(), err_class(&e)), e);
                return;
            }
            let d = r.dump();
            let diffs = discrepancies(&d, &r.model);
            if !diffs.is_empty() {
                let detail: Vec<String> = diffs.iter().take(5).map(|(c, t)| format!("[{c}] {t}")).collect();
                push(res, format!("{tk}:{kind_name}:after_reopen_later:{}:{}", op.kind(), classes_of(&diffs)), detail.join("; "));
                return;
            }
        }
    }
}

impl Check for IoErrCheck {
    fn id(&self) -> &'static str {
        "C08"
    }
    fn level(&self) -> &'static str {
        "fault_enumeration"
    }
    fn budget(&self, tier: &str) -> usize {
        if tier == "thorough" { 40_000 } else { 1_500 }
    }
    fn gen_case(&self, seed: u64, _idx: usize, _tier: &str, avoid: &[String]) -> Case {
        let mut rng = Rng::new(seed, "workload");
        let mut k = gen_knobs(&mut rng, avoid);
        k.w_top = [40, 2, *rng.pick(&[4, 10]), 3, *rng.pick(&[2, 5]), 2, 0];
        if avoid.iter().any(|a| a == "index_with_io_error") {
            k.w_top[3] = 0;
        } else if rng.chance(0.4) {
            // index-heavy variant: few labels / keys so that index maintenance runs inside the faulted commits
            k.n_labels = 2;
            k.n_keys = 2;
            k.w_top[3] = 10;
            k.index_universe = true;
        }
        k.n_ops = rng.range(1, 6) as usize;
        k.max_txn_ops = rng.range(1, 5) as usize;
        k.big_values = rng.chance(0.05);
        let ops = gen_history(&mut rng, &k);
        Case {
            property: "C08".into(),
            config: "io_errors".into(),
            seed,
            knobs: serde_json::to_value(&k).unwrap(),
            ops: ops_to_json(&ops),
            ..Default::default()
        }
    }
    fn valid(&self, case: &Case) -> bool {
        valid_history(&ops_of(case))
    }
    fn run_case(&self, case: &Case) -> CaseResult {
        let mut res = CaseResult::default();
        let ops = ops_of(case);
        let avoid: Vec<String> = case.knobs.get("avoid").and_then(|a| serde_json::from_value(a.clone()).ok()).unwrap_or_default();
        if let Some(f) = &case.focus {
            match serde_json::from_value::<IoFocus>(f.clone()) {
                Ok(f) if f.target < ops.len() => self.run_fault(&ops, &f, case.seed, &avoid, &mut res),
                Ok(_) => {}
                Err(e) => res.harness_error = Some(format!("bad focus: {e}")),
            }
            return res;
        }
        // fault-free run to learn the I/O step range of every op
        let mut step_info: Vec<(&'static str, String)> = Vec::new(); // per I/O step: (kind, file ext)
        let ranges: Vec<(u64, u64)> = {
            let sb = Sandbox::new("c08r");
            let world = World::new(&sb.dir, case.seed);
            let _g = world.install();
            let mut r = match Runner::open(&sb.dir) {
                Ok(r) => r,
                Err(e) => {
                    res.harness_error = Some(e);
                    return res;
                }
            };
            let mut v = Vec::new();
            for op in &ops {
                let a = world.steps();
                if !r.exec(op).ok {
                    res.stats.inc("foreign_discrepancy");
                    return res;
                }
                v.push((a, world.steps()));
            }
            // map every I/O step to the file it touched
            let journal = world.take_journal();
            let mut ino_name: std::collections::BTreeMap<u32, String> = std::collections::BTreeMap::new();
            for j in &journal {
                use crate::disk::JOp;
                let ext = |n: &str| n.rsplit('.').next().unwrap_or("").to_string();
                match j {
                    JOp::Create { ino, name } | JOp::Adopt { ino, name, .. } => {
                        ino_name.insert(*ino, name.clone());
                        if matches!(j, JOp::Create { .. }) {
                            step_info.push((j.kind(), ext(name)));
                        }
                    }
                    JOp::Write { ino, .. } | JOp::SetLen { ino, .. } | JOp::Sync { ino } => {
                        step_info.push((j.kind(), ino_name.get(ino).map(|n| ext(n)).unwrap_or_default()));
                    }
                    JOp::Rename { from, to } => {
                        step_info.push((j.kind(), ext(from)));
                        ino_name.retain(|_, n| n != to);
                        for n in ino_name.values_mut() {
                            if n == from {
                                *n = to.clone();
                            }
                        }
                    }
                    JOp::Remove { name } | JOp::Mkdir { name } => step_info.push((j.kind(), ext(name))),
                    _ => {}
                }
            }
            v
        };
        let avoid_after_commit = avoid.iter().any(|a| a == "io_error_after_commit_record");
        res.stats.sample(json!({
            "seed": case.seed,
            "ops": ops.iter().map(|o| o.kind()).collect::<Vec<_>>(),
            "io_step_ranges": ranges,
        }));
        let mut rng = Rng::new(case.seed, "faults");
        // targets: every committing txn, compaction and close in the history
        let mut seen = BTreeSet::new();
        for (t, op) in ops.iter().enumerate() {
            if !matches!(op, Op::Txn { commit: true, .. } | Op::Compact | Op::CloseReopen | Op::CreateIndex { .. }) {
                continue;
            }
            let (a, b) = ranges[t];
            // the commit record of a transaction is durable with the last log fsync of its range
            let last_wal_sync = (a..b).rev().find(|s| {
                step_info.get(*s as usize).map(|(k, f)| *k == "sync" && f == "wal").unwrap_or(false)
            });
            for step in a..b {
                if avoid_after_commit
                    && matches!(op, Op::Txn { .. })
                    && last_wal_sync.map(|l| step > l).unwrap_or(false)
                {
                    res.stats.inc("skipped_after_commit_record");
                    continue;
                }
                for kind in [FaultKind::Eio, FaultKind::PartialEio, FaultKind::Enospc] {
                    if kind == FaultKind::PartialEio && matches!(op, Op::Compact) && avoid.iter().any(|a| a == "partial_write_in_compaction") {
                        continue;
                    }
                    let f = IoFocus { target: t, step, kind, continue_in_process: rng.chance(0.6) };
                    let before = res.viols.len();
                    self.run_fault(&ops, &f, case.seed, &avoid, &mut res);
                    if res.viols.len() > before {
                        let cls = res.viols.last().unwrap().class.clone();
                        if !seen.insert(cls) {
                            res.viols.pop();
                        }
                    }
                    if res.harness_error.is_some() {
                        return res;
                    }
                }
            }
            res.stats.add("io_steps", b - a);
        }
        res
    }
    fn rule(&self) -> String {
        "Per generated history, every committing transaction, compaction, index creation and close is a target; EVERY I/O step inside the target (learned from a fault-free run; replays are exact because execution is deterministic) is faulted once with each of: EIO without effect, partial 4 KiB-aligned write then EIO (writes), ENOSPC (writes / set_len), EIO on fsync. The device works again afterwards. Oracle: an operation that returned an error is invisible in the running process; every later transaction that returns Ok is visible and survives reopen; after reopen the failed transaction is wholly present or wholly absent; open succeeds; one more transaction is committed and reopened. evaluations = faulted executions in which the fault fired; distinct_nontrivial = distinct (step, fault kind, pre-state) triples.".into()
    }
    fn nontrivial_set(&self) -> &'static str {
        "fault_points"
    }
    fn assumptions(&self) -> Vec<String> {
        vec![
            "One fault per execution (the property says every single I/O failure); the device works again after it.".into(),
            "A failed fsync leaves the preceding writes in the files (no page-cache dropping is modelled in this configuration).".into(),
            "If the failed transaction and the later ones both create nodes, only 'failed transaction absent' is admissible after reopen (a present failed transaction would collide on internal ids); an id mismatch right after a failed commit is counted inconclusive, not a violation.".into(),
        ]
    }
}
