//! C18: growing one structure never corrupts another. Fault-free histories at
//! scale (hundreds to thousands of nodes in PRNG-sized batches, interleaved
//! with compaction, index creation/maintenance, vector insertion and multi-page
//! property values) under a page-ownership monitor on the disk seam, followed
//! by a reopen dump.

use crate::checks::lifecycle::{classes_of, discrepancies, ops_of, ops_to_json, valid_history};
use crate::framework::{Case, CaseResult, Check, Viol};
use crate::l1::{Runner, Sandbox, gen_history, gen_knobs};
use crate::model::Op;
use crate::prng::Rng;
use crate::world::World;
use serde_json::json;

pub fn checks() -> Vec<&'static dyn Check> {
    static C18: GrowthCheck = GrowthCheck;
    vec![&C18]
}

pub struct GrowthCheck;

impl Check for GrowthCheck {
    fn id(&self) -> &'static str {
        "C18"
    }
    fn budget(&self, tier: &str) -> usize {
        if tier == "thorough" { 40_000 } else { 400 }
    }
    fn gen_case(&self, seed: u64, _idx: usize, tier: &str, avoid: &[String]) -> Case {
        let mut rng = Rng::new(seed, "workload");
        let mut k = gen_knobs(&mut rng, avoid);
        // txn, abandon, compact, create_index, close_reopen, drop_reopen, vacuum
        k.w_top = [40, 0, *rng.pick(&[3, 8]), 4, 2, 2, 0];
        k.max_live_nodes = if tier == "thorough" { *rng.pick(&[700usize, 1200, 3000]) } else { *rng.pick(&[560usize, 700, 1100]) };
        k.max_txn_ops = *rng.pick(&[40usize, 120, 300]);
        k.n_ops = rng.range(8, 24) as usize;
        // node creation dominates; other structures grow in between
        k.w_txn = [40, 0, 0, 4, 0, 0, 6, 0, 2, 0, *rng.pick(&[0, 3])];
        k.big_values = rng.chance(0.5);
        k.index_universe = false;
        if avoid.iter().any(|a| a == "node_table_growth_with_other_allocations") {
            if rng.chance(0.5) {
                // (a) every structure grows, the node table stays within its first page
                k.max_live_nodes = *rng.pick(&[300usize, 450, 500]);
            } else {
                // (b) the node table crosses page boundaries while nothing else allocates pages
                k.w_top = [40, 0, 0, 0, 2, 2, 0];
                k.w_txn[10] = 0;
            }
        }
        let mut ops = gen_history(&mut rng, &k);
        if rng.chance(0.25) {
            // boundary configuration: the node table is exactly full (512 records per page)
            // at the moment of a reopen, then grows on
            use crate::model::TOp;
            let pages = *rng.pick(&[1usize, 1, 2, 3]);
            let target = 512 * pages;
            let batch = *rng.pick(&[64usize, 128, 200, 512]);
            let mut ext = 50_000u64;
            let mut made = 0usize;
            ops.clear();
            while made < target {
                let n = batch.min(target - made);
                let mut tops: Vec<TOp> = Vec::new();
                for _ in 0..n {
                    ext += 1;
                    tops.push(TOp::CreateNode { ext, labels: if rng.chance(0.5) { vec!["LA".into()] } else { vec![] } });
                }
                if rng.chance(0.5) {
                    tops.push(TOp::SetNodeProp { node: made as u32, key: "k0".into(), val: crate::model::Val::Int(made as i64) });
                }
                made += n;
                ops.push(Op::Txn { ops: tops, commit: true });
            }
            let mut other_pages = false;
            if pages == 1 && rng.chance(0.4) {
                ops.push(Op::Compact);
                other_pages = true;
            }
            ops.push(if rng.chance(0.5) { Op::CloseReopen } else { Op::DropReopen });
            let mut tops: Vec<TOp> = Vec::new();
            let f36 = avoid.iter().any(|a| a == "node_table_growth_with_other_allocations");
            for _ in 0..rng.range(1, 4) {
                // F36: record 512 would claim the page a compaction has just been given
                if !(other_pages && f36) {
                    ext += 1;
                    tops.push(TOp::CreateNode { ext, labels: vec![] });
                }
            }
            tops.push(TOp::SetNodeProp { node: (target - 1) as u32, key: "k1".into(), val: crate::model::Val::Int(7) });
            ops.push(Op::Txn { ops: tops, commit: true });
            ops.push(Op::DropReopen);
            k.max_live_nodes = target + 8;
        }
        Case {
            property: "C18".into(),
            config: "growth_at_scale".into(),
            seed,
            knobs: serde_json::to_value(&k).unwrap(),
            ops: ops_to_json(&ops),
            ..Default::default()
        }
    }
    fn valid(&self, case: &Case) -> bool {
        valid_history(&ops_of(case))
    }
    fn run_case(&self, case: &Case) -> CaseResult {
        let mut res = CaseResult::default();
        let ops = ops_of(case);
        let sb = Sandbox::new("c18");
        let world = World::new(&sb.dir, case.seed);
        world.pages.lock().unwrap().enabled = true;
        let _g = world.install();
        let mut r = match Runner::open(&sb.dir) {
            Ok(r) => r,
            Err(e) => {
                res.harness_error = Some(e);
                return res;
            }
        };
        let mut reported = 0usize;
        for (i, op) in ops.iter().enumerate() {
            let out = r.exec(op);
            res.stats.inc("evaluations");
            let pv: Vec<String> = world.pages.lock().unwrap().violations.clone();
            if pv.len() > reported {
                let first = &pv[reported];
                reported = pv.len();
                // class: owners only (page numbers vary)
                let cls: String = first.split_whitespace().filter(|w| !w.chars().all(|c| c.is_ascii_digit())).collect::<Vec<_>>().join("_");
                res.viols.push(Viol {
                    class: format!("page_owner:{cls}"),
                    detail: format!("during op {i} ({}) with {} nodes created: {first}", op.kind(), r.model.next_iid),
                    focus: None,
                    schedule: None,
                });
                break;
            }
            if !out.ok || r.engine.is_none() {
                res.viols.push(Viol {
                    class: format!("{}:{}", op.kind(), if out.panicked { "op_panicked" } else { "op_failed" }),
                    detail: format!("op {i} ({}) with {} nodes: {:?}", op.kind(), r.model.next_iid, out.err),
                    focus: None,
                    schedule: None,
                });
                break;
            }
            // a dump after every reopen-type op and at the end (dumps of thousands of nodes are slow)
            if matches!(op, Op::CloseReopen | Op::DropReopen) || i + 1 == ops.len() {
                if i + 1 == ops.len() && r.reopen().is_err() {
                    res.viols.push(Viol { class: "final_reopen_failed".into(), detail: "reopen at the end failed".into(), focus: None, schedule: None });
                    break;
                }
                let d = r.dump_plain();
                let diffs = discrepancies(&d, &r.model);
                if !diffs.is_empty() {
                    let detail: Vec<String> = diffs.iter().take(5).map(|(c, t)| format!("[{c}] {t}")).collect();
                    res.viols.push(Viol {
                        class: format!("{}:{}", op.kind(), classes_of(&diffs)),
                        detail: format!("after op {i} ({}) with {} nodes: {}", op.kind(), r.model.next_iid, detail.join("; ")),
                        focus: None,
                        schedule: None,
                    });
                    break;
                }
            }
        }
        let p = world.pages.lock().unwrap();
        res.stats.add("page_events", p.events);
        res.stats.add("pages_owned", p.owner.len() as u64);
        let nodes = r.model.next_iid as u64;
        res.stats.see("growth_shapes", crate::prng::fnv(&format!("{}:{}:{:?}", nodes / 64, p.owner.len() / 8, ops.iter().map(|o| o.kind()).collect::<Vec<_>>())));
        if nodes > 512 {
            res.stats.inc("probe:node_table_page_boundary_crossed");
        }
        if nodes > 1024 {
            res.stats.inc("probe:node_table_two_boundaries_crossed");
        }
        res.stats.sample(json!({ "seed": case.seed, "nodes_created": nodes, "pages_owned": p.owner.len(), "ops": ops.iter().map(|o| o.kind()).collect::<Vec<_>>() }));
        res
    }
    fn rule(&self) -> String {
        "Fault-free L1 histories at scale: node creation in batches of up to 300 per transaction up to 560-3000 nodes (the node table holds 512 records per page), interleaved in PRNG order with compaction, index creation, relationship and property writes (values from 0 bytes to several pages) and vector insertions, so that the page allocator hands pages to different structures between node-table growth steps. Monitor on the disk seam: every page allocation / implicit claim / write / free is attributed to the structure performing it (node table, B-tree, blob, segment, catalog); a page owned by one structure that is claimed or written by another is a violation at that instant. Second oracle: dump == model after every reopen and after a final reopen. evaluations = operations executed; distinct_nontrivial = distinct (node count bucket, owned-page bucket, op-kind sequence) shapes.".into()
    }
    fn nontrivial_set(&self) -> &'static str {
        "growth_shapes"
    }
    fn assumptions(&self) -> Vec<String> {
        vec!["Ownership is tracked at the granularity of the tagged structures; all B-trees (property store, indexes, vector and graph trees) share the tag 'btree'.".into()]
    }
}
