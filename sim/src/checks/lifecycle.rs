//! Fault-free lifecycle-event histories on the simulated substrate:
//! C06 (baseline: reads agree with the model after every commit),
//! C04 (reopen), C05 (compaction/checkpoint), C07 (abandoned transactions),
//! C28 (vacuum). The "event" of each property is placed at arbitrary positions
//! of generated L1 histories; the oracle compares a full dump with the model
//! before and after the event, and attributes later discrepancies by running
//! the twin history without the events.

use crate::dump::Dump;
use crate::framework::{Case, CaseResult, Check, Stats, Viol};
use crate::l1::{Knobs, Runner, Sandbox, gen_history, gen_knobs};
use crate::model::{Model, Op, TOp};
use crate::prng::Rng;
use crate::world::World;
use serde_json::json;

pub struct Lifecycle {
    pub id: &'static str,
    pub events: &'static [&'static str],
}

pub fn checks() -> Vec<&'static dyn Check> {
    static C04: Lifecycle = Lifecycle { id: "C04", events: &["close_reopen", "drop_reopen"] };
    static C05: Lifecycle = Lifecycle { id: "C05", events: &["compact"] };
    static C06: Lifecycle = Lifecycle { id: "C06", events: &[] };
    static C07: Lifecycle = Lifecycle { id: "C07", events: &["abandon", "failed_commit"] };
    static C28: Lifecycle = Lifecycle { id: "C28", events: &["vacuum"] };
    vec![&C04, &C05, &C06, &C07, &C28]
}

pub fn ops_of(case: &Case) -> Vec<Op> {
    case.ops.iter().filter_map(|v| serde_json::from_value(v.clone()).ok()).collect()
}

pub fn ops_to_json(ops: &[Op]) -> Vec<serde_json::Value> {
    ops.iter().map(|o| serde_json::to_value(o).unwrap()).collect()
}

/// A history is well-formed if every reference is valid in the model at that point.
pub fn valid_history(ops: &[Op]) -> bool {
    let mut m = Model::default();
    for op in ops {
        let (ops, commit, target) = match op {
            Op::Txn { ops, commit } => (ops, commit, None),
            Op::FailingTxn { ops, target } => (ops, &false, Some(*target)),
            _ => continue,
        };
        {
            let mut c = m.clone();
            for t in ops {
                let ok = match t {
                    TOp::CreateNode { .. } => true,
                    TOp::AddLabel { node, .. }
                    | TOp::RemoveLabel { node, .. }
                    | TOp::SetNodeProp { node, .. }
                    | TOp::RemoveNodeProp { node, .. }
                    | TOp::SetVector { node, .. } => c.g.nodes.contains_key(node),
                    TOp::DelNode { node } => {
                        // incident edges created in this txn must have been deleted explicitly
                        c.g.nodes.contains_key(node)
                            && c.incident(*node).iter().all(|e| m.g.edges.contains_key(e) && {
                                // committed earlier with at least as many copies
                                m.g.edges[e].count >= c.g.edges[e].count
                            })
                    }
                    TOp::CreateEdge { src, rel, dst } => {
                        c.g.nodes.contains_key(src)
                            && c.g.nodes.contains_key(dst)
                            && !c.tainted_edges.contains(&(*src, rel.clone(), *dst))
                    }
                    TOp::DelEdge { src, rel, dst }
                    | TOp::SetEdgeProp { src, rel, dst, .. }
                    | TOp::RemoveEdgeProp { src, rel, dst, .. } => {
                        c.g.edges.contains_key(&(*src, rel.clone(), *dst))
                    }
                };
                if !ok {
                    return false;
                }
                c.apply(t);
            }
            if let Some(t) = target
                && !c.g.nodes.contains_key(&t)
            {
                return false;
            }
            if *commit {
                m = c;
            }
        }
    }
    true
}

pub fn classes_of(diffs: &[(String, String)]) -> String {
    let mut c: Vec<&str> = diffs.iter().map(|(c, _)| c.as_str()).collect();
    c.sort();
    c.dedup();
    c.join("+")
}

pub fn discrepancies(d: &Dump, m: &Model) -> Vec<(String, String)> {
    let mut v = d.g.diff(&m.g);
    for (c, det) in &d.inv {
        v.push((format!("inv:{c}"), det.clone()));
    }
    v
}

pub struct FirstBad {
    pub at: usize,
    pub kind: &'static str,
    pub classes: String,
    pub detail: String,
}

/// Run a history fault-free, dumping after every op; returns the first discrepancy.
pub fn run_history(ops: &[Op], seed: u64, stats: &mut Stats, tag: &str) -> Result<Option<FirstBad>, String> {
    let sb = Sandbox::new(tag);
    let world = World::new(&sb.dir, seed);
    let _g = world.install();
    let mut r = Runner::open(&sb.dir)?;
    let mut vector_ever: std::collections::BTreeSet<u32> = std::collections::BTreeSet::new();
    for (i, op) in ops.iter().enumerate() {
        let out = r.exec(op);
        stats.inc("evaluations");
        stats.inc(&format!("op:{}", op.kind()));
        if !out.ok && out.err.as_deref().unwrap_or("").starts_with("EXPECTED-FAILURE-MISSING") {
            stats.inc("inconclusive:oversized_commit_accepted");
            return Ok(None);
        }
        if let Op::FailingTxn { .. } = op {
            stats.inc("probe:commit_failed_as_arranged");
        }
        if !out.ok {
            return Ok(Some(FirstBad {
                at: i,
                kind: op.kind(),
                classes: if out.panicked { "op_panicked".into() } else { "op_failed".into() },
                detail: format!("op {i} ({}) failed: {}", op.kind(), out.err.unwrap_or_default()),
            }));
        }
        if r.engine.is_none() {
            return Ok(None);
        }
        let d = r.dump();
        if !r.model.g.nodes.is_empty() {
            stats.see("state_op_pairs", r.model.g.digest() ^ crate::prng::fnv(op.kind()));
        }
        let mut diffs = discrepancies(&d, &r.model);
        if diffs.is_empty() && (tag == "C07" || tag == "C28") {
            // vector search must be unaffected by abandoned transactions / vacuum
            if let Op::Txn { ops: tops, .. } = op {
                for t in tops {
                    if let TOp::SetVector { node, .. } = t {
                        vector_ever.insert(*node);
                    }
                }
            }
            if !vector_ever.is_empty() {
                stats.inc("probe:vector_search_compared");
                for (c, t) in crate::checks::vector::vector_discrepancies(r.engine(), &r.model, vector_ever.len()) {
                    diffs.push((format!("vec:{c}"), t));
                }
            }
        }
        if !diffs.is_empty() {
            let detail: Vec<String> = diffs.iter().take(6).map(|(c, d)| format!("[{c}] {d}")).collect();
            return Ok(Some(FirstBad {
                at: i,
                kind: op.kind(),
                classes: classes_of(&diffs),
                detail: format!("after op {i} ({}): {}", op.kind(), detail.join("; ")),
            }));
        }
    }
    stats.add("io_steps", world.steps());
    Ok(None)
}

impl Lifecycle {
    fn shape(&self, k: &mut Knobs, rng: &mut Rng) {
        // top-level weights: txn, abandon, compact, create_index, close_reopen, drop_reopen, vacuum
        match self.id {
            "C06" => k.w_top = [1, 0, 0, 0, 0, 0, 0],
            "C04" => {
                k.w_top = [40, 2, *rng.pick(&[0, 6, 15]), 3, 8, 8, 0];
                if rng.chance(0.2) {
                    // failed commits followed by further commits and a reopen
                    k.failing_commits = true;
                    k.w_top[1] = 8;
                }
            }
            "C05" => {
                k.w_top = [40, 2, *rng.pick(&[8, 20, 40]), 3, 0, 0, 0];
                if rng.chance(0.1) {
                    k.n_ops = 120; // many overwrites across many compactions
                    k.max_live_nodes = 3;
                }
            }
            "C07" => {
                k.w_top = [30, *rng.pick(&[10, 30]), *rng.pick(&[0, 5]), 3, 4, 4, 0];
                if rng.chance(0.7) {
                    k.w_txn[10] = 6; // vectors
                }
                k.failing_commits = true;
            }
            "C28" => {
                k.w_top = [40, 2, *rng.pick(&[0, 6, 15]), 3, 0, 0, *rng.pick(&[6, 12])];
                if rng.chance(0.4) {
                    k.w_txn[10] = 4;
                }
            }
            _ => {}
        }
    }
}

impl Check for Lifecycle {
    fn id(&self) -> &'static str {
        self.id
    }

    fn budget(&self, tier: &str) -> usize {
        match (self.id, tier) {
            ("C06", "thorough") => 1_500_000,
            ("C06", _) => 20_000,
            ("C05", "thorough") => 600_000,
            ("C07", "thorough") => 120_000,
            ("C28", "thorough") => 800_000,
            ("C05", _) => 10_000,
            (_, "thorough") => 400_000,
            _ => 12_000,
        }
    }

    fn gen_case(&self, seed: u64, _idx: usize, _tier: &str, avoid: &[String]) -> Case {
        let mut rng = Rng::new(seed, "workload");
        let mut k = gen_knobs(&mut rng, avoid);
        self.shape(&mut k, &mut rng);
        let ops = gen_history(&mut rng, &k);
        Case {
            property: self.id.to_string(),
            config: "lifecycle".into(),
            seed,
            knobs: serde_json::to_value(&k).unwrap(),
            ops: ops_to_json(&ops),
            ..Default::default()
        }
    }

    fn valid(&self, case: &Case) -> bool {
        valid_history(&ops_of(case))
    }

    fn run_case(&self, case: &Case) -> CaseResult {
        let mut res = CaseResult::default();
        let ops = ops_of(case);
        if ops.len() != case.ops.len() {
            res.harness_error = Some("replay file: cannot decode ops".into());
            return res;
        }
        let first = match run_history(&ops, case.seed, &mut res.stats, self.id) {
            Ok(f) => f,
            Err(e) => {
                res.harness_error = Some(e);
                return res;
            }
        };
        if res.stats.samples.is_empty() {
            res.stats.sample(json!({"seed": case.seed, "ops": ops.iter().map(|o| o.kind()).collect::<Vec<_>>() }));
        }
        let Some(bad) = first else { return res };
        let is_event = |k: &str| self.events.contains(&k);
        if self.events.is_empty() {
            // C06: every discrepancy counts
            res.viols.push(Viol {
                class: format!("{}:{}", bad.kind, bad.classes),
                detail: bad.detail,
                focus: None,
                schedule: None,
            });
            return res;
        }
        if is_event(bad.kind) {
            res.viols.push(Viol {
                class: format!("{}:{}", bad.kind, bad.classes),
                detail: bad.detail,
                focus: None,
                schedule: None,
            });
            return res;
        }
        // discrepancy after a non-event op: attributable only if the twin history
        // without the events is clean up to the same point
        let had_event = ops[..=bad.at].iter().any(|o| is_event(o.kind()));
        if !had_event {
            res.stats.inc("foreign_discrepancy");
            return res;
        }
        let twin: Vec<Op> = ops[..=bad.at].iter().filter(|o| !is_event(o.kind())).cloned().collect();
        let mut scratch = Stats::default();
        match run_history(&twin, case.seed, &mut scratch, self.id) {
            Ok(None) => {
                res.viols.push(Viol {
                    class: format!("{}_delayed:{}:{}", self.events[0], bad.kind, bad.classes),
                    detail: format!("(history without the events is clean) {}", bad.detail),
                    focus: None,
                    schedule: None,
                });
            }
            Ok(Some(_)) => res.stats.inc("foreign_discrepancy"),
            Err(e) => res.harness_error = Some(e),
        }
        res
    }

    fn rule(&self) -> String {
        format!(
            "Seeded swarm generation of L1 storage histories (transactions of node/edge/label/property writes, plus the lifecycle events {:?} at PRNG-chosen positions); after every operation a full dump through every read interface is compared with the reference model. evaluations = operations executed and compared. A case is counted in distinct_nontrivial once per distinct (model-state digest, operation kind) pair with a non-empty graph.",
            self.events
        )
    }

    fn nontrivial_set(&self) -> &'static str {
        "state_op_pairs"
    }

    fn assumptions(&self) -> Vec<String> {
        vec![
            "No fault is injected in this configuration: the technique degenerates to model-based history testing on the simulated substrate (DESIGN.md §0).".into(),
            "Reference model = sequential meaning of the storage API (DESIGN.md §2.5); generators avoid sequences whose meaning the API leaves open.".into(),
            "Strict exploration runs under the avoidance constraints of the known findings that still reproduce (known_findings.json).".into(),
        ]
    }
}
