//! C15: indexes never change query results. The same generated history runs on
//! two databases, one of which additionally executes the `create_index` events;
//! after every operation (commit, abandoned transaction, compaction, reopen)
//! equality-lookup queries for every (label, property, value) must return the
//! same rows on both, and the storage-level index lookup must agree with the
//! model's scan answer.

use crate::checks::lifecycle::{ops_of, ops_to_json, valid_history};
use crate::framework::{Case, CaseResult, Check, Viol};
use crate::l1::{Runner, Sandbox, gen_history, gen_knobs, index_universe};
use crate::model::{KEYS, LABELS, Model, Op, Val};
use crate::prng::Rng;
use crate::world::World;
use ndb_api::{GraphSnapshot, GraphStore};
use serde_json::json;
use std::collections::BTreeSet;

pub fn checks() -> Vec<&'static dyn Check> {
    static C15: IndexCheck = IndexCheck;
    vec![&C15]
}

pub struct IndexCheck;

fn lit(v: &Val) -> String {
    match v {
        Val::Int(i) => i.to_string(),
        Val::F(b) => {
            let f = f64::from_bits(*b);
            if f == 0.0 && f.is_sign_negative() { "-0.0".into() } else { format!("{f:?}") }
        }
        Val::Str(s) => format!("'{s}'"),
        Val::Bool(b) => b.to_string(),
        _ => "null".into(),
    }
}

/// Cypher equality on the universe: numbers compare by value across int/float.
fn cy_eq(a: &Val, b: &Val) -> bool {
    let num = |v: &Val| match v {
        Val::Int(i) => Some(*i as f64),
        Val::F(b) => Some(f64::from_bits(*b)),
        _ => None,
    };
    match (num(a), num(b)) {
        (Some(x), Some(y)) => x == y,
        (None, None) => a == b,
        _ => false,
    }
}

fn query_ids(engine: &ndb_storage::engine::GraphEngine, q: &str) -> Result<BTreeSet<i64>, String> {
    let snap = engine.snapshot();
    let prep = ndb_query::prepare(q).map_err(|e| format!("prepare {q}: {e}"))?;
    let params = ndb_query::Params::new();
    let rows: Result<Vec<ndb_query::Row>, ndb_query::Error> = prep.execute_streaming(&snap, &params).collect();
    let rows = rows.map_err(|e| format!("{q}: {e}"))?;
    let mut out = BTreeSet::new();
    for r in rows {
        if let Some(ndb_query::Value::Int(i)) = r.get("i") {
            out.insert(*i);
        }
    }
    Ok(out)
}

impl Check for IndexCheck {
    fn id(&self) -> &'static str {
        "C15"
    }
    fn budget(&self, tier: &str) -> usize {
        if tier == "thorough" { 600_000 } else { 15_000 }
    }
    fn gen_case(&self, seed: u64, _idx: usize, _tier: &str, avoid: &[String]) -> Case {
        let mut rng = Rng::new(seed, "workload");
        let mut k = gen_knobs(&mut rng, avoid);
        // txn, abandon, compact, create_index, close_reopen, drop_reopen, vacuum
        k.w_top = [40, 3, *rng.pick(&[0, 6]), *rng.pick(&[6, 12]), *rng.pick(&[0, 4]), *rng.pick(&[0, 4]), 0];
        k.n_ops = rng.range(2, 12) as usize;
        k.index_universe = true;
        k.n_labels = *rng.pick(&[1usize, 2, 2, 3]);
        k.n_keys = *rng.pick(&[1usize, 2, 2]);
        k.big_values = false;
        // property writes and label changes matter here
        k.w_txn[6] = k.w_txn[6].max(12);
        k.w_txn[0] = k.w_txn[0].max(8);
        if avoid.iter().any(|a| a == "index_created_after_data") {
            // the index exists before any data: put the create_index events first
        }
        if !avoid.iter().any(|a| a == "index_long_duplicate_runs") && rng.chance(0.05) {
            // many nodes sharing few values: long runs of equal keys across index leaf splits
            // 512 node records fill the node table's first page; beyond it F36 (C18) interferes
            k.max_live_nodes = if avoid.iter().any(|a| a == "node_table_growth_with_other_allocations") { 500 } else { 900 };
            k.max_txn_ops = 220;
            k.n_ops = rng.range(8, 16) as usize;
            k.n_labels = 1;
            k.n_keys = 1;
            k.w_top = [40, 0, 0, 8, 0, 0, 0];
            k.w_txn = [12, 0, 0, 0, 0, 0, 20, 0, 0, 0, 0];
        }
        let mut ops = gen_history(&mut rng, &k);
        if avoid.iter().any(|a| a == "index_created_after_data") {
            let (mut idx, mut rest): (Vec<Op>, Vec<Op>) = ops.into_iter().partition(|o| matches!(o, Op::CreateIndex { .. }));
            idx.append(&mut rest);
            ops = idx;
        }
        Case {
            property: "C15".into(),
            config: "indexed_vs_twin".into(),
            seed,
            knobs: serde_json::to_value(&k).unwrap(),
            ops: ops_to_json(&ops),
            ..Default::default()
        }
    }
    fn valid(&self, case: &Case) -> bool {
        valid_history(&ops_of(case))
    }
    fn run_case(&self, case: &Case) -> CaseResult {
        let mut res = CaseResult::default();
        let ops = ops_of(case);
        let sb = Sandbox::new("c15");
        let (dir_a, dir_b) = (sb.dir.join("a"), sb.dir.join("b"));
        let _ = std::fs::create_dir_all(&dir_a);
        let _ = std::fs::create_dir_all(&dir_b);
        let world = World::new(&sb.dir, case.seed);
        let _g = world.install();
        let (mut a, mut b) = match (Runner::open(&dir_a), Runner::open(&dir_b)) {
            (Ok(a), Ok(b)) => (a, b),
            _ => {
                res.harness_error = Some("open failed".into());
                return res;
            }
        };
        let universe = index_universe();
        res.stats.sample(json!({ "seed": case.seed, "ops": ops.iter().map(|o| o.kind()).collect::<Vec<_>>() }));
        let mut indexes: BTreeSet<(String, String)> = BTreeSet::new();
        for (i, op) in ops.iter().enumerate() {
            let oa = a.exec(op);
            let ob = if matches!(op, Op::CreateIndex { .. }) { oa.clone() } else { b.exec(op) };
            if let Op::CreateIndex { label, prop } = op {
                indexes.insert((label.clone(), prop.clone()));
                res.stats.inc(if a.model.g.nodes.is_empty() { "probe:index_created_before_data" } else { "probe:index_created_after_data" });
            }
            if !oa.ok || !ob.ok {
                if oa.ok != ob.ok || oa.panicked {
                    res.viols.push(Viol {
                        class: format!("{}:{}", op.kind(), if oa.panicked { "panic_with_index" } else { "outcome_differs_with_index" }),
                        detail: format!("op {i} ({}): with index {:?}, without {:?}", op.kind(), oa.err, ob.err),
                        focus: None,
                        schedule: None,
                    });
                } else {
                    res.stats.inc("foreign_discrepancy");
                }
                return res;
            }
            if a.engine.is_none() || b.engine.is_none() {
                return res;
            }
            if indexes.is_empty() {
                continue;
            }
            let model: &Model = &a.model;
            for (label, prop) in &indexes {
                for v in &universe {
                    for (qi, q) in [
                        format!("MATCH (n:{label}) WHERE n.{prop} = {} RETURN id(n) AS i", lit(v)),
                        format!("MATCH (n:{label} {{{prop}: {}}}) RETURN id(n) AS i", lit(v)),
                    ]
                    .iter()
                    .enumerate()
                    {
                        res.stats.inc("evaluations");
                        let ra = query_ids(a.engine(), q);
                        let rb = query_ids(b.engine(), q);
                        let (ra, rb) = match (ra, rb) {
                            (Ok(x), Ok(y)) => (x, y),
                            (x, y) => {
                                if x.is_ok() != y.is_ok() {
                                    res.viols.push(Viol {
                                        class: format!("{}:query_outcome_differs_with_index", op.kind()),
                                        detail: format!("after op {i}: {q}: with index {x:?}, without {y:?}"),
                                        focus: None,
                                        schedule: None,
                                    });
                                    return res;
                                }
                                continue;
                            }
                        };
                        res.stats.see("lookups", crate::prng::fnv(&format!("{q}{}", model.g.digest())));
                        if ra != rb {
                            // classify with the help of the model's scan answer
                            let want: BTreeSet<i64> = model
                                .g
                                .nodes
                                .iter()
                                .filter(|(id, n)| {
                                    n.labels.contains(label)
                                        && model.node_vals.get(id).and_then(|m| m.get(prop)).map(|x| cy_eq(x, v)).unwrap_or(false)
                                })
                                .map(|(id, _)| *id as i64)
                                .collect();
                            let kind = if !ra.is_subset(&want) && !want.is_subset(&ra) {
                                "wrong_rows"
                            } else if ra.is_subset(&want) {
                                "rows_missing"
                            } else {
                                "stale_rows"
                            };
                            let vk = match v {
                                Val::Int(_) => "int",
                                Val::F(_) => "float",
                                Val::Str(_) => "string",
                                _ => "bool",
                            };
                            res.viols.push(Viol {
                                class: format!("{}:{kind}:{vk}:q{qi}", op.kind()),
                                detail: format!("after op {i} ({}): {q}: with index {ra:?}, without index {rb:?}, model scan {want:?}", op.kind()),
                                focus: None,
                                schedule: None,
                            });
                            return res;
                        }
                    }
                }
            }
        }
        res
    }
    fn rule(&self) -> String {
        "The same generated L1 history (transactions over a small adversarial value universe: duplicate values, 1 vs 1.0, 0.0 vs -0.0, strings, booleans; multi-label nodes, labels added/removed later, deleted nodes; abandoned transactions, compaction, close/drop + reopen) runs on two databases; only one executes the create_index events (placed at PRNG-chosen positions, before or after data). After every operation, for every indexed (label, property) and every value of the universe, `MATCH (n:L) WHERE n.p = v` and `MATCH (n:L {p: v})` must return the same node ids on both databases. evaluations = query pairs compared; distinct_nontrivial = distinct (query, model state) pairs.".into()
    }
    fn nontrivial_set(&self) -> &'static str {
        "lookups"
    }
    fn assumptions(&self) -> Vec<String> {
        vec![
            "The oracle is the twin database without the index (the property's own formulation); the model's scan answer is used only to classify a difference.".into(),
            "This configuration is fault-free; index behaviour under crashes and I/O errors is part of the images/faults explored by C01/C02/C08 only as far as the logical dump shows it.".into(),
        ]
    }
}

#[allow(dead_code)]
fn _keys() -> (&'static [&'static str], &'static [&'static str]) {
    (&LABELS, &KEYS)
}
