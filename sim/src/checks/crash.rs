//! C01 / C02: crash-image enumeration. One fault-free, journaled execution of a
//! generated history yields every crash image offline: process death at every
//! I/O step (with 4 KiB cuts inside large writes) and power loss at every I/O
//! step (unsynced writes dropped / torn to 512-byte sectors, directory
//! operations lost as a suffix). Every image is recovered by the real
//! `GraphEngine::open`, dumped and compared with the admissible model states;
//! then driven further (more commits, reopen) and — nested — crashed again.

use crate::checks::lifecycle::{classes_of, discrepancies, ops_of, ops_to_json, valid_history};
use crate::disk::{FsImage, JOp, Marker, PowerChoice, Replayer};
use crate::dump::dump_snapshot;
use crate::framework::{Case, CaseResult, Check, Stats, Viol};
use crate::l1::{Knobs, Runner, Sandbox, gen_history, gen_knobs, open_engine};
use crate::model::{GraphState, Model, Op};
use crate::prng::Rng;
use crate::world::World;
use ndb_api::GraphStore;
use serde::{Deserialize, Serialize};
use serde_json::json;
use std::collections::BTreeSet;

pub struct CrashCheck {
    pub id: &'static str,
}

pub fn checks() -> Vec<&'static dyn Check> {
    static C01: CrashCheck = CrashCheck { id: "C01" };
    static C02: CrashCheck = CrashCheck { id: "C02" };
    vec![&C01, &C02]
}

#[derive(Serialize, Deserialize, Clone, Debug, PartialEq)]
pub enum Variant {
    /// process death before journal[pos], first `cut` bytes of that write applied
    Pd { cut: usize },
    Pl(PowerChoice),
}

#[derive(Serialize, Deserialize, Clone, Debug)]
pub struct Focus {
    pub pos: usize,
    pub variant: Variant,
    /// nested round: crash position/variant inside the continuation after recovery
    #[serde(default)]
    pub nested: Option<Box<Focus>>,
}

#[derive(Serialize, Deserialize, Clone, Debug)]
pub struct Params {
    /// enumerate every `stride`-th I/O step (1 = all)
    pub stride: usize,
    pub pl_random_variants: usize,
    /// continue after recovery on every n-th image (0 = never)
    pub continue_every: usize,
    pub nested_every: usize,
}

/// The journaled execution of a history plus the model state after every op.
pub struct Recorded {
    pub journal: Vec<JOp>,
    /// states[i] = model after i ops; models[i] likewise (full model for continuation)
    pub models: Vec<Model>,
    pub op_kinds: Vec<&'static str>,
}

pub fn record(ops: &[Op], seed: u64, start_image: Option<(&FsImage, &Model)>, tag: &str) -> Result<Result<Recorded, String>, String> {
    let sb = Sandbox::new(tag);
    if let Some((img, _)) = start_image {
        img.write_to(&sb.dir).map_err(|e| e.to_string())?;
    }
    let world = World::new(&sb.dir, seed);
    let _g = world.install();
    let mut r = match start_image {
        Some((_, m)) => match Runner::with_model(&sb.dir, m.clone()) {
            Ok(r) => r,
            Err(e) => return Ok(Err(e)),
        },
        None => Runner::open(&sb.dir)?,
    };
    let mut models = vec![r.model.clone()];
    for (i, op) in ops.iter().enumerate() {
        world.mark(Marker::Begin(i));
        let out = r.exec(op);
        if !out.ok {
            world.mark(Marker::Fail(i));
            return Ok(Err(format!("op {i} ({}) failed in the fault-free run: {}", op.kind(), out.err.unwrap_or_default())));
        }
        world.mark(Marker::Ack(i));
        models.push(r.model.clone());
    }
    drop(r);
    // self-check: the journal must reproduce the real files byte for byte
    let journal = world.take_journal();
    let mut rp = Replayer::new();
    rp.run_to(&journal, journal.len());
    let img = rp.image_process_death(&journal, 0);
    let real = FsImage::read_from(&sb.dir);
    let unknown = world.disk.lock().unwrap().unknown_paths.clone();
    if !unknown.is_empty() {
        return Err(format!("journal self-check: files opened that were never seen created: {unknown:?}"));
    }
    if img.files.len() != real.files.len()
        || img.files.values().map(|v| crate::prng::fnv_bytes(7, v)).collect::<BTreeSet<_>>()
            != real.files.values().map(|v| crate::prng::fnv_bytes(7, v)).collect::<BTreeSet<_>>()
    {
        return Err(format!(
            "journal self-check failed: journal replays to {:?} but the directory holds {:?}",
            img.files.iter().map(|(n, d)| (n.clone(), d.len())).collect::<Vec<_>>(),
            real.files.iter().map(|(n, d)| (n.clone(), d.len())).collect::<Vec<_>>()
        ));
    }
    Ok(Ok(Recorded { journal, models, op_kinds: ops.iter().map(|o| o.kind()).collect() }))
}

/// (index of last acked op + 1, index of op in flight) at journal position `pos`
fn ack_state(journal: &[JOp], pos: usize) -> (usize, Option<usize>) {
    let mut acked = 0usize;
    let mut inflight = None;
    for op in &journal[..pos] {
        if let JOp::Mark(m) = op {
            match m {
                Marker::Begin(i) => inflight = Some(*i),
                Marker::Ack(i) => {
                    acked = *i + 1;
                    inflight = None;
                }
                Marker::Fail(_) => inflight = None,
            }
        }
    }
    (acked, inflight)
}

pub struct Recovered {
    /// index into `models` of the state the recovered database equals
    pub matched: Option<usize>,
    pub viols: Vec<(String, String, String)>, // (property, class, detail)
}

fn missing_like(classes: &str) -> bool {
    classes.split('+').any(|c| c.ends_with("_missing") || c.ends_with("_stale") || c == "edge_count" || c == "ext_diff" || c.starts_with("label"))
}

/// Recover one image with the real code and judge it.
fn judge_image(
    img: &FsImage,
    rec: &Recorded,
    acked: usize,
    inflight: Option<usize>,
    stats: &mut Stats,
    tag: &str,
) -> (Recovered, Option<(Sandbox, Model)>) {
    let sb = Sandbox::new(tag);
    let mut out = Recovered { matched: None, viols: Vec::new() };
    if img.write_to(&sb.dir).is_err() {
        return (out, None);
    }
    stats.inc("evaluations");
    let engine = match open_engine(&sb.ndb(), &sb.wal()) {
        Ok(e) => e,
        Err(e) => {
            let cls = err_class(&e);
            out.viols.push(("C02".into(), format!("open_failed:{cls}"), format!("open after crash failed: {e}")));
            if acked > 0 && rec.models[acked].commits > 0 {
                out.viols.push(("C01".into(), format!("open_failed:{cls}"), format!("acknowledged commits unreachable, open after crash failed: {e}")));
            }
            return (out, None);
        }
    };
    let hi = inflight.map(|j| j + 1).unwrap_or(acked);
    let probe = rec.models[hi].next_iid;
    let (d, idx_acked, idx_hi) = {
        let snap = engine.snapshot();
        let d = dump_snapshot(&snap, probe);
        // index soundness against both admissible states (an entry is fine if either explains it)
        let a = crate::dump::index_soundness(&snap, &rec.models[acked]);
        let b = crate::dump::index_soundness(&snap, &rec.models[hi]);
        (d, a, b)
    };
    let engine_next_iid = engine.scan_i2e_records().len() as u32;
    drop(engine);
    stats.see("recovered_states", d.g.digest());
    // admissible: state after the last ack, or after the in-flight op
    let mut cands = vec![acked];
    if hi != acked {
        cands.push(hi);
    }
    // two candidates may have the same logical content (e.g. a transaction that creates and
    // deletes a node); the number of allocated node slots tells which one the engine is in
    let matching: Vec<usize> = cands.iter().copied().filter(|c| d.inv.is_empty() && d.g == rec.models[*c].g).collect();
    // prefer the later state: with equal content and slot count its bookkeeping (edge keys whose
    // re-creation the generator must avoid) is a superset of the earlier one's
    if let Some(c) = matching.iter().rev().copied().find(|c| rec.models[*c].next_iid == engine_next_iid) {
        let idx = if c == acked { &idx_acked } else { &idx_hi };
        if let Some((cls, det)) = idx.first() {
            out.viols.push(("C02".into(), format!("index:{cls}"), format!("recovered content equals the state after {c} ops, but {det}")));
            stats.inc("probe:index_unsound_after_recovery");
        }
        out.matched = Some(c);
        return (out, Some((sb, rec.models[c].clone())));
    }
    if let Some(c) = matching.first().copied() {
        // content admissible, slot count explained by neither state: do not continue from it
        stats.inc("matched_without_slot_agreement");
        out.matched = Some(c);
        return (out, None);
    }
    // not admissible: which earlier prefix, if any?
    let prefix = (0..acked).rev().find(|i| d.inv.is_empty() && d.g == rec.models[*i].g);
    let best = cands
        .iter()
        .map(|c| discrepancies(&d, &rec.models[*c]))
        .min_by_key(|v| v.len())
        .unwrap_or_default();
    let classes = classes_of(&best);
    let detail: Vec<String> = best.iter().take(5).map(|(c, t)| format!("[{c}] {t}")).collect();
    let detail = format!(
        "acked ops {acked}, in flight {inflight:?}; recovered {} vs admissible: {}",
        d.g.summary(),
        detail.join("; ")
    );
    match prefix {
        Some(p) => {
            out.viols.push((
                "C01".into(),
                format!("acked_lost:{classes}"),
                format!("recovered state equals the state after only {p} ops; {detail}"),
            ));
        }
        None => {
            out.viols.push(("C02".into(), format!("not_a_prefix:{classes}"), detail.clone()));
            if missing_like(&classes) {
                out.viols.push(("C01".into(), format!("acked_lost:{classes}"), detail));
            }
        }
    }
    (out, None)
}

pub fn err_class(e: &str) -> String {
    // keep the error kind, drop numbers
    let mut s = String::new();
    for c in e.chars() {
        if c.is_ascii_digit() {
            if !s.ends_with('#') {
                s.push('#');
            }
        } else {
            s.push(if c == ' ' { '_' } else { c });
        }
    }
    crate::framework::truncate(&s, 60)
}

fn continuation_ops(seed: u64, model: &Model, avoid: &[String]) -> Vec<Op> {
    // a few more transactions generated from the recovered state, then a clean reopen
    let mut rng = Rng::new(seed, "continuation");
    let mut k = gen_knobs(&mut rng, avoid);
    k.n_ops = rng.range(1, 3) as usize;
    k.w_top = [1, 0, 0, 0, 0, 0, 0];
    k.max_live_nodes = model.g.nodes.len() + 3;
    k.big_values = false;
    let mut ops = crate::l1::gen_history_from(&mut rng, &k, model);
    let may_close = !avoid.iter().any(|a| a == "label_ops_with_checkpoint");
    ops.push(if may_close && rng.chance(0.3) { Op::CloseReopen } else { Op::DropReopen });
    ops
}

impl CrashCheck {
    #[allow(clippy::too_many_arguments)]
    fn explore(
        &self,
        rec: &Recorded,
        params: &Params,
        seed: u64,
        depth: u32,
        focus: Option<&Focus>,
        avoid: &[String],
        res: &mut CaseResult,
        path: &mut Vec<Focus>,
    ) {
        let journal = &rec.journal;
        let mut rp = Replayer::new();
        let mut seen: BTreeSet<u64> = BTreeSet::new();
        let mut io_idx = 0usize;
        let mut img_ctr = 0usize;
        let mut vrng = Rng::new(seed, "images");
        // The property's power-loss clause is "only fsynced bytes and directory entries persist",
        // i.e. every file rolled back to its last synced image. Subsets of unsynced writes
        // (drop-last / torn sectors / random) demand more than the property states; they are
        // explored only on request and reported as information, never as violations.
        let adversarial = std::env::var("VERIF_PL_ADVERSARIAL").is_ok();
        for pos in 0..=journal.len() {
            rp.run_to(journal, pos);
            let is_io = pos < journal.len() && journal[pos].is_io();
            if pos < journal.len() && !is_io {
                continue;
            }
            io_idx += 1;
            if let Some(f) = focus {
                if f.pos != pos {
                    continue;
                }
            } else if params.stride > 1 && io_idx % params.stride != (seed as usize % params.stride) && pos != journal.len() {
                continue;
            }
            let (acked, inflight) = ack_state(journal, pos);
            let mut variants: Vec<Variant> = Vec::new();
            match focus {
                Some(f) => variants.push(f.variant.clone()),
                None => {
                    variants.push(Variant::Pd { cut: 0 });
                    let skip_torn = avoid.iter().any(|a| a == "torn_page_write_in_compaction")
                        && inflight.map(|j| rec.op_kinds.get(j).map(|k| *k == "compact").unwrap_or(false)).unwrap_or(false);
                    if let Some(JOp::Write { data, .. }) = journal.get(pos)
                        && !skip_torn
                    {
                        let mut c = 4096;
                        while c < data.len() {
                            variants.push(Variant::Pd { cut: c });
                            c += 4096;
                        }
                    }
                    if rp.pending_write_count() > 0 || rp.pending_dir_count() > 0 {
                        variants.push(Variant::Pl(PowerChoice::DropAll));
                    }
                    if rp.pending_write_count() > 0 && adversarial {
                        variants.push(Variant::Pl(PowerChoice::DropLast));
                        variants.push(Variant::Pl(PowerChoice::TearLast(vrng.next_u64())));
                        for _ in 0..params.pl_random_variants {
                            variants.push(Variant::Pl(PowerChoice::Random(vrng.next_u64())));
                        }
                    }
                }
            }
            for v in variants {
                let img = match &v {
                    Variant::Pd { cut } => rp.image_process_death(journal, *cut),
                    Variant::Pl(c) => rp.image_power_loss(journal, *c),
                };
                let h = img.hash() ^ ((acked as u64) << 48) ^ ((inflight.map(|x| x + 1).unwrap_or(0) as u64) << 56);
                if focus.is_none() && !seen.insert(h) {
                    res.stats.inc("images_duplicate");
                    continue;
                }
                img_ctr += 1;
                let kind = match &v {
                    Variant::Pd { cut: 0 } => "fault:crash_pd",
                    Variant::Pd { .. } => "fault:crash_pd_torn4k",
                    Variant::Pl(PowerChoice::DropAll) => "fault:crash_pl_dropall",
                    Variant::Pl(PowerChoice::DropLast) => "fault:crash_pl_droplast",
                    Variant::Pl(PowerChoice::TearLast(_)) => "fault:crash_pl_tear512",
                    Variant::Pl(PowerChoice::Random(_)) => "fault:crash_pl_random",
                };
                res.stats.inc(kind);
                if depth > 0 {
                    res.stats.inc("fault:nested_crash");
                }
                res.stats.see("images", h);
                if acked > 0 && rec.models[acked].commits > 0 {
                    res.stats.see("images_after_ack", h);
                }
                if inflight.is_some() {
                    res.stats.inc("probe:crash_inside_operation");
                    if let Some(j) = inflight {
                        res.stats.inc(&format!("probe:crash_inside_{}", self.op_kind(rec, j)));
                    }
                }
                let (r, cont) = judge_image(&img, rec, acked, inflight, &mut res.stats, self.id);
                let here = Focus { pos, variant: v.clone(), nested: None };
                let informational = matches!(&v, Variant::Pl(c) if *c != PowerChoice::DropAll) && focus.is_none();
                for (prop, class, detail) in r.viols {
                    if informational {
                        res.stats.inc(&format!("info:adversarial_power_loss:{class}"));
                        continue;
                    }
                    if prop == self.id {
                        let mut f = here.clone();
                        // wrap into the path of outer rounds
                        for outer in path.iter().rev() {
                            let mut o = outer.clone();
                            o.nested = Some(Box::new(f));
                            f = o;
                        }
                        let class = if depth > 0 { format!("round{}:{class}", depth + 1) } else { class };
                        res.viols.push(Viol {
                            class,
                            detail: format!("[{kind} at journal pos {pos} ({})] {detail}", journal.get(pos).map(|j| j.kind()).unwrap_or("end")),
                            focus: Some(serde_json::to_value(&f).unwrap()),
                            schedule: None,
                        });
                    }
                }
                // drive the recovered database further
                let nested_focus = focus.and_then(|f| f.nested.as_deref());
                let do_continue = match focus {
                    Some(_) => true,
                    None => params.continue_every > 0 && img_ctr % params.continue_every == 0,
                };
                if let Some((sb, model)) = cont
                    && do_continue
                    && depth < 2
                {
                    let cseed = seed ^ (pos as u64).wrapping_mul(0x9E37) ^ h;
                    let ops = continuation_ops(cseed, &model, avoid);
                    // continue from the crash image itself, so that recovery and the following
                    // commits happen in one session (as they do in a real restart)
                    let start = img.clone();
                    drop(sb);
                    match record(&ops, cseed, Some((&start, &model)), self.id) {
                        Ok(Ok(rec2)) => {
                            res.stats.inc("continuations");
                            // the continuation ends with a reopen: its final dump was compared by
                            // `record` only implicitly; check it explicitly here
                            self.check_final(&rec2, &ops, cseed, &start, &model, depth, &here, path, res);
                            let nest = match focus {
                                Some(_) => nested_focus.is_some(),
                                None => params.nested_every > 0 && img_ctr % (params.continue_every * params.nested_every).max(1) == 0,
                            };
                            if nest {
                                path.push(here.clone());
                                let p2 = Params { stride: params.stride.max(3), pl_random_variants: 0, continue_every: 0, nested_every: 0 };
                                self.explore(&rec2, &p2, cseed, depth + 1, nested_focus, avoid, res, path);
                                path.pop();
                            }
                        }
                        Ok(Err(e)) => {
                            // an operation failed after recovery: acknowledged state unusable
                            if self.id == "C01" {
                                let mut f = here.clone();
                                for outer in path.iter().rev() {
                                    let mut o = outer.clone();
                                    o.nested = Some(Box::new(f));
                                    f = o;
                                }
                                res.viols.push(Viol {
                                    class: format!("post_recovery_op_failed:{}", err_class(&e)),
                                    detail: format!("[{kind} at journal pos {pos}] after recovery: {e}"),
                                    focus: Some(serde_json::to_value(&f).unwrap()),
                                    schedule: None,
                                });
                            }
                        }
                        Err(e) => res.harness_error = Some(e),
                    }
                }
            }
        }
        res.stats.add("io_steps", io_idx as u64);
    }

    fn op_kind(&self, rec: &Recorded, j: usize) -> &'static str {
        rec.op_kinds.get(j).copied().unwrap_or("op")
    }

    #[allow(clippy::too_many_arguments)]
    fn check_final(
        &self,
        rec2: &Recorded,
        ops: &[Op],
        cseed: u64,
        start: &FsImage,
        model: &Model,
        depth: u32,
        here: &Focus,
        path: &[Focus],
        res: &mut CaseResult,
    ) {
        if self.id != "C01" {
            return;
        }
        // re-run the continuation without journaling and dump after every op
        let sb = Sandbox::new("c01c");
        if start.write_to(&sb.dir).is_err() {
            return;
        }
        let world = World::new(&sb.dir, cseed);
        let _g = world.install();
        let Ok(mut r) = Runner::with_model(&sb.dir, model.clone()) else { return };
        for (i, op) in ops.iter().enumerate() {
            let out = r.exec(op);
            if !out.ok || r.engine.is_none() {
                return;
            }
            let d = r.dump();
            let diffs = discrepancies(&d, &r.model);
            if !diffs.is_empty() && std::env::var("VERIF_DEBUG").is_ok() {
                eprintln!("--- continuation ops: {ops:?}");
                eprintln!("--- start image wal:");
                for l in crate::checks::faults::wal_dump(start.files.get("g.wal").map(|v| v.as_slice()).unwrap_or(&[])) {
                    eprintln!("{l}");
                }
                eprintln!("--- wal now:");
                for l in crate::checks::faults::wal_dump(&std::fs::read(sb.wal()).unwrap_or_default()) {
                    eprintln!("{l}");
                }
            }
            if !diffs.is_empty() {
                let classes = classes_of(&diffs);
                let detail: Vec<String> = diffs.iter().take(5).map(|(c, t)| format!("[{c}] {t}")).collect();
                let mut f = here.clone();
                for outer in path.iter().rev() {
                    let mut o = outer.clone();
                    o.nested = Some(Box::new(f));
                    f = o;
                }
                let _ = rec2;
                res.viols.push(Viol {
                    class: format!("{}post_recovery:{}:{classes}", if depth > 0 { "round2:" } else { "" }, op.kind()),
                    detail: format!(
                        "after recovering the crash image and running {} more ops, op {i} ({}) left: {}",
                        ops.len(),
                        op.kind(),
                        detail.join("; ")
                    ),
                    focus: Some(serde_json::to_value(&f).unwrap()),
                    schedule: None,
                });
                return;
            }
        }
    }
}

fn shape(k: &mut Knobs, rng: &mut Rng, tier: &str) {
    // txn, abandon, compact, create_index, close_reopen, drop_reopen, vacuum
    k.w_top = [40, 3, *rng.pick(&[0, 6, 12]), 2, *rng.pick(&[0, 5]), *rng.pick(&[0, 4]), 0];
    if k.avoids("index_with_crash") {
        k.w_top[3] = 0;
    }
    k.n_ops = if tier == "thorough" { rng.range(2, 14) } else { rng.range(2, 7) } as usize;
    k.max_txn_ops = rng.range(1, 6) as usize;
    k.big_values = rng.chance(0.1);
}

impl Check for CrashCheck {
    fn id(&self) -> &'static str {
        self.id
    }
    fn level(&self) -> &'static str {
        "fault_enumeration"
    }
    fn budget(&self, tier: &str) -> usize {
        if tier == "thorough" { 25_000 } else { 1_500 }
    }
    fn gen_case(&self, seed: u64, _idx: usize, tier: &str, avoid: &[String]) -> Case {
        let mut rng = Rng::new(seed, "workload");
        let mut k = gen_knobs(&mut rng, avoid);
        shape(&mut k, &mut rng, tier);
        let ops = gen_history(&mut rng, &k);
        let params = Params {
            stride: 1,
            pl_random_variants: if tier == "thorough" { 3 } else { 1 },
            continue_every: if tier == "thorough" { 3 } else { 5 },
            nested_every: 8,
        };
        Case {
            property: self.id.to_string(),
            config: "crash_images".into(),
            seed,
            knobs: serde_json::to_value(&k).unwrap(),
            ops: ops_to_json(&ops),
            params: serde_json::to_value(&params).unwrap(),
            ..Default::default()
        }
    }
    fn valid(&self, case: &Case) -> bool {
        valid_history(&ops_of(case))
    }
    fn run_case(&self, case: &Case) -> CaseResult {
        let mut res = CaseResult::default();
        let ops = ops_of(case);
        let params: Params = serde_json::from_value(case.params.clone()).unwrap_or(Params {
            stride: 1,
            pl_random_variants: 1,
            continue_every: 5,
            nested_every: 8,
        });
        let avoid: Vec<String> = case
            .knobs
            .get("avoid")
            .and_then(|a| serde_json::from_value(a.clone()).ok())
            .unwrap_or_default();
        let rec = match record(&ops, case.seed, None, self.id) {
            Ok(Ok(r)) => r,
            Ok(Err(_)) => {
                res.stats.inc("foreign_discrepancy");
                return res;
            }
            Err(e) => {
                res.harness_error = Some(e);
                return res;
            }
        };
        res.stats.sample(json!({
            "seed": case.seed,
            "ops": ops.iter().map(|o| o.kind()).collect::<Vec<_>>(),
            "journal_len": rec.journal.len(),
            "journal_kinds_head": rec.journal.iter().take(24).map(|j| j.kind()).collect::<Vec<_>>(),
        }));
        let focus: Option<Focus> = case.focus.clone().and_then(|f| serde_json::from_value(f).ok());
        let mut path = Vec::new();
        self.explore(&rec, &params, case.seed, 0, focus.as_ref(), &avoid, &mut res, &mut path);
        // one violation per class is enough per case
        let mut seen = BTreeSet::new();
        res.viols.retain(|v| seen.insert(v.class.clone()));
        res
    }
    fn rule(&self) -> String {
        "Per generated L1 history (transactions, compaction, index creation, close, reopen): one fault-free journaled execution; then EVERY I/O step of its journal is a crash point, each with the variants process death (plus every 4 KiB cut inside the write in flight) and power loss (all unsynced writes dropped; only the last dropped; last torn to a PRNG-chosen subset of its 512-byte sectors; PRNG-chosen keep/drop/tear of every unsynced write with a PRNG-chosen lost suffix of directory operations). Each distinct image (by content hash) is recovered by the real GraphEngine::open, dumped, and compared with the model states admissible at that point (after the last acknowledged operation, or after the operation in flight); every n-th recovered image is driven on with generated transactions + reopen, and a subset is journaled and crashed again (nested rounds). evaluations = images recovered. distinct_nontrivial = distinct images (content hash + ack position) taken after at least one acknowledged commit.".into()
    }
    fn nontrivial_set(&self) -> &'static str {
        "images_after_ack"
    }
    fn assumptions(&self) -> Vec<String> {
        vec![
            "Crash points are enumerated per history; histories, power-loss subsets and continuation workloads are seeded samples.".into(),
            "Power-loss model: 512-byte atomic sectors; sync_data makes data and size of that file durable; directory operations are ordered and become durable with the next completed sync of any file (ext4/xfs ordered-journal behaviour, the lenient choice — the repository never syncs a directory).".into(),
            "Process death: a write in flight may be cut at 4 KiB boundaries only.".into(),
            "The journal self-check (journal replay == real files) guards against unhooked write paths; a mismatch is a harness error, not a violation.".into(),
            "Strict exploration runs under the avoidance constraints of the known findings that still reproduce (known_findings.json).".into(),
        ]
    }
}
