//! C32: node identities unique / allocation never fails — under a simulated wall
//! clock that may stall, be coarse, or step backwards.
//! C33: execution limits fail cleanly — row / collection limits and a soft
//! timeout whose deadline the simulated monotonic clock crosses at every check.

use crate::capi::CDb;
use crate::framework::{Case, CaseResult, Check, Viol};
use crate::l1::Sandbox;
use crate::prng::Rng;
use crate::world::{ClockRegime, World};
use serde::{Deserialize, Serialize};
use serde_json::json;
use std::collections::{BTreeMap, BTreeSet};
use std::sync::Arc;

pub fn checks() -> Vec<&'static dyn Check> {
    static C32: IdentityCheck = IdentityCheck;
    static C33: LimitsCheck = LimitsCheck;
    vec![&C32, &C33]
}

// ---------------------------------------------------------------------------

#[derive(Serialize, Deserialize, Clone, Debug, PartialEq)]
pub enum IdOp {
    Create { uid: i64 },
    UnwindCreate { uids: Vec<i64> },
    MergeCreate { uid: i64 },
    DetachDelete { uid: i64 },
    Compact,
    Reopen,
    /// explicit transaction: creating statements, statements that create and then fail at
    /// run time (rolled back to their savepoint), then commit or rollback
    Txn { parts: Vec<TxnPart>, commit: bool },
}

#[derive(Serialize, Deserialize, Clone, Debug, PartialEq)]
pub enum TxnPart {
    Create { uid: i64 },
    UnwindCreate { uids: Vec<i64> },
    /// UNWIND over `uids` creating a node per row; the last row raises a runtime error
    FailingCreate { uids: Vec<i64> },
}

impl IdOp {
    fn kind(&self) -> &'static str {
        match self {
            IdOp::Create { .. } => "create",
            IdOp::UnwindCreate { .. } => "unwind_create",
            IdOp::MergeCreate { .. } => "merge_create",
            IdOp::DetachDelete { .. } => "detach_delete",
            IdOp::Compact => "compact",
            IdOp::Reopen => "reopen",
            IdOp::Txn { commit: true, .. } => "txn",
            IdOp::Txn { commit: false, .. } => "txn_rollback",
        }
    }
}

pub struct IdentityCheck;

impl Check for IdentityCheck {
    fn id(&self) -> &'static str {
        "C32"
    }
    fn budget(&self, tier: &str) -> usize {
        if tier == "thorough" { 1_500_000 } else { 30_000 }
    }
    fn gen_case(&self, seed: u64, _idx: usize, _tier: &str, avoid: &[String]) -> Case {
        let mut rng = Rng::new(seed, "workload");
        let n = rng.range(2, 12) as usize;
        let mut uid = 0i64;
        let mut live: Vec<i64> = Vec::new();
        let mut ops = Vec::new();
        for _ in 0..n {
            let op = match rng.below(15) {
                12..=14 => {
                    let commit = rng.chance(0.85);
                    let np = rng.range(2, 5) as usize;
                    let mut parts = Vec::new();
                    let mut made: Vec<i64> = Vec::new();
                    for _ in 0..np {
                        match rng.below(4) {
                            0 | 1 => {
                                uid += 1;
                                made.push(uid);
                                parts.push(TxnPart::Create { uid });
                            }
                            2 => {
                                let k = rng.range(2, 4) as usize;
                                let uids: Vec<i64> = (0..k)
                                    .map(|_| {
                                        uid += 1;
                                        uid
                                    })
                                    .collect();
                                made.extend(&uids);
                                parts.push(TxnPart::UnwindCreate { uids });
                            }
                            _ => {
                                let k = rng.range(1, 3) as usize;
                                let uids: Vec<i64> = (0..k)
                                    .map(|_| {
                                        uid += 1;
                                        uid
                                    })
                                    .collect();
                                parts.push(TxnPart::FailingCreate { uids });
                            }
                        }
                    }
                    if commit {
                        live.extend(&made);
                    }
                    IdOp::Txn { parts, commit }
                }
                0..=3 => {
                    uid += 1;
                    live.push(uid);
                    IdOp::Create { uid }
                }
                4..=6 => {
                    let k = *rng.pick(&[2usize, 3, 5, 20]);
                    let uids: Vec<i64> = (0..k)
                        .map(|_| {
                            uid += 1;
                            uid
                        })
                        .collect();
                    live.extend(&uids);
                    IdOp::UnwindCreate { uids }
                }
                7 | 8 => {
                    uid += 1;
                    live.push(uid);
                    IdOp::MergeCreate { uid }
                }
                9 if !live.is_empty() && !avoid.iter().any(|a| a == "compact_after_node_delete") => {
                    let i = rng.usize_below(live.len());
                    IdOp::DetachDelete { uid: live.remove(i) }
                }
                10 => IdOp::Compact,
                11 => IdOp::Reopen,
                _ => {
                    uid += 1;
                    live.push(uid);
                    IdOp::Create { uid }
                }
            };
            ops.push(op);
        }
        let regime = *rng.pick(&[ClockRegime::Normal, ClockRegime::Stalled, ClockRegime::Stalled, ClockRegime::Coarse, ClockRegime::Jumpy, ClockRegime::Jumpy]);
        Case {
            property: "C32".into(),
            config: "clock_regimes".into(),
            seed,
            ops: ops.iter().map(|o| serde_json::to_value(o).unwrap()).collect(),
            params: json!({ "regime": regime }),
            ..Default::default()
        }
    }
    fn run_case(&self, case: &Case) -> CaseResult {
        let mut res = CaseResult::default();
        let ops: Vec<IdOp> = case.ops.iter().filter_map(|v| serde_json::from_value(v.clone()).ok()).collect();
        let regime: ClockRegime = serde_json::from_value(case.params["regime"].clone()).unwrap_or(ClockRegime::Normal);
        let sb = Sandbox::new("c32");
        let world = Arc::new(World::build(&sb.dir, case.seed, None, true));
        world.clock.lock().unwrap().regime = regime;
        let _g = world.install();
        let base = sb.dir.join("g");
        let mut db = match CDb::open(&base) {
            Ok(d) => Some(d),
            Err(e) => {
                res.harness_error = Some(e.message);
                return res;
            }
        };
        // uid -> engine identity (id(n)); identities ever seen (also of deleted nodes)
        let mut ident: BTreeMap<i64, i64> = BTreeMap::new();
        let mut ever: BTreeSet<i64> = BTreeSet::new();
        let mut deleted: BTreeSet<i64> = BTreeSet::new();
        res.stats.sample(json!({ "seed": case.seed, "regime": regime, "ops": ops.iter().map(|o| o.kind()).collect::<Vec<_>>() }));
        for (i, op) in ops.iter().enumerate() {
            res.stats.inc("evaluations");
            let d = db.as_ref().unwrap();
            let r = match op {
                IdOp::Create { uid } => d.exec_write(&format!("CREATE (:N {{id: {uid}}})")).map(|_| ()),
                IdOp::UnwindCreate { uids } => {
                    let l: Vec<String> = uids.iter().map(|u| u.to_string()).collect();
                    d.exec_write(&format!("UNWIND [{}] AS x CREATE (:N {{id: x}})", l.join(", "))).map(|_| ())
                }
                IdOp::MergeCreate { uid } => d.exec_write(&format!("MERGE (n:M {{id: {uid}}})")).map(|_| ()),
                IdOp::DetachDelete { uid } => {
                    deleted.insert(*uid);
                    d.exec_write(&format!("MATCH (n {{id: {uid}}}) DETACH DELETE n")).map(|_| ())
                }
                IdOp::Txn { parts, commit } => (|| {
                    let tx = d.begin()?;
                    for p in parts {
                        match p {
                            TxnPart::Create { uid } => tx.query(&format!("CREATE (:N {{id: {uid}}})"))?,
                            TxnPart::UnwindCreate { uids } => {
                                let l: Vec<String> = uids.iter().map(|u| u.to_string()).collect();
                                tx.query(&format!("UNWIND [{}] AS x CREATE (:N {{id: x}})", l.join(", ")))?
                            }
                            TxnPart::FailingCreate { uids } => {
                                let l: Vec<String> = uids.iter().map(|u| u.to_string()).collect();
                                let last = uids.last().copied().unwrap_or(0);
                                let q = format!(
                                    "UNWIND [{}] AS x CREATE (:N {{id: x, ok: CASE WHEN x = {last} THEN toBoolean(1) ELSE true END}})",
                                    l.join(", ")
                                );
                                if tx.query(&q).is_ok() {
                                    res.stats.inc("statement_expected_to_fail_succeeded");
                                } else {
                                    res.stats.inc("probe:statement_rolled_back_inside_txn");
                                }
                            }
                        }
                    }
                    if *commit { tx.commit() } else { tx.rollback() }
                })(),
                IdOp::Compact => d.compact(),
                IdOp::Reopen => {
                    let old = db.take().unwrap();
                    let r = old.close();
                    match CDb::open(&base) {
                        Ok(nd) => {
                            db = Some(nd);
                            r
                        }
                        Err(e) => Err(e),
                    }
                }
            };
            if let Err(e) = r {
                let alloc = e.message.contains("external id") || e.message.contains("duplicate");
                res.viols.push(Viol {
                    class: format!("{}:{}", op.kind(), if alloc { "identity_allocation_failed" } else { "op_failed" }),
                    detail: format!("op {i} ({op:?}) under clock regime {regime:?} failed: {}", e.message),
                    focus: None,
                    schedule: None,
                });
                break;
            }
            let Some(d) = db.as_ref() else { break };
            let rows = match d.query("MATCH (n) RETURN n.id AS uid, id(n) AS nid") {
                Ok(r) => r,
                Err(e) => {
                    res.viols.push(Viol { class: "read_failed".into(), detail: e.message, focus: None, schedule: None });
                    break;
                }
            };
            let mut seen_now: BTreeSet<i64> = BTreeSet::new();
            for r in rows.as_array().cloned().unwrap_or_default() {
                let (Some(uid), Some(nid)) = (r["uid"].as_i64(), r["nid"].as_i64()) else { continue };
                if deleted.contains(&uid) {
                    continue; // resurrected nodes are C05's business
                }
                if !seen_now.insert(nid) {
                    res.viols.push(Viol { class: "identity_shared".into(), detail: format!("after op {i}: identity {nid} is used by two nodes"), focus: None, schedule: None });
                }
                match ident.get(&uid) {
                    Some(old) if *old != nid => {
                        res.viols.push(Viol {
                            class: format!("identity_changed:{}", op.kind()),
                            detail: format!("after op {i} ({}): node uid={uid} had identity {old}, now {nid}", op.kind()),
                            focus: None,
                            schedule: None,
                        });
                    }
                    Some(_) => {}
                    None => {
                        if !ever.insert(nid) {
                            res.viols.push(Viol {
                                class: "identity_reused".into(),
                                detail: format!("after op {i}: new node uid={uid} got identity {nid}, which an earlier node had"),
                                focus: None,
                                schedule: None,
                            });
                        }
                        ident.insert(uid, nid);
                    }
                }
            }
            if !res.viols.is_empty() {
                break;
            }
            res.stats.see("id_states", crate::prng::fnv(&format!("{:?}{:?}", regime, ident)) ^ i as u64);
        }
        let c = world.clock.lock().unwrap();
        res.stats.add("fault:clock_stall", c.stalls);
        res.stats.add("fault:clock_back", c.backs);
        res.stats.add("clock_reads", c.wall_reads);
        res.stats.add("sim_time_ns", (c.wall - 1_700_000_000_000_000_000).max(0) as u64);
        res
    }
    fn rule(&self) -> String {
        "Create-heavy sessions through the C API (single CREATE, UNWIND..CREATE of 2-20 nodes, MERGE creates, DETACH DELETE, compaction, close + reopen, and explicit transactions of several creating statements mixed with statements that create and then fail at run time and are rolled back to their savepoint) under a simulated wall clock whose regime is chosen per run: normal, stalled (never advances), coarse (1 ms granularity, mostly stalled), jumpy (steps backwards / stalls / advances). Oracle: no create statement fails; after every operation id(n) of every live node is distinct, never equals an identity seen before, and never changes across compaction or reopen. evaluations = operations executed; distinct_nontrivial = distinct (regime, identity map, position) states.".into()
    }
    fn nontrivial_set(&self) -> &'static str {
        "id_states"
    }
    fn assumptions(&self) -> Vec<String> {
        vec!["The clock seam covers the three node-id allocation sites of the query executor; only clock behaviour is varied (volume up to 20 nodes per statement).".into()]
    }
    fn real_vs_stub(&self) -> serde_json::Value {
        json!({
            "real": ["nervusdb-capi", "nervusdb-query executor (create / merge paths)", "nervusdb-storage"],
            "stub": ["wall clock (simulated regimes: stall, coarse, backwards)", "fsync"],
            "not_run": ["bindings"]
        })
    }
}

// ---------------------------------------------------------------------------

pub struct LimitsCheck;

#[derive(Serialize, Deserialize, Clone, Debug)]
pub struct LimParams {
    pub nodes: usize,
    pub edges: Vec<(usize, usize)>,
    pub query: String,
    pub ordered: bool,
    pub limit_sets: Vec<(usize, usize, usize)>,
}

const QUERIES: [(&str, bool); 18] = [
    ("MATCH (a), (b) RETURN a.v AS x, b.v AS y", false),
    ("UNWIND range(1, 40) AS x RETURN x", false),
    ("MATCH (a)-[*1..3]->(b) RETURN a.v AS x, b.v AS y", false),
    ("MATCH (a), (b) RETURN DISTINCT a.v AS x", false),
    ("MATCH (a), (b) RETURN a.v AS x, b.v AS y ORDER BY x, y", true),
    ("MATCH (a), (b) RETURN a.v AS x, count(b) AS c", false),
    ("MATCH (a) RETURN a.v AS x UNION MATCH (b) RETURN b.v AS x", false),
    ("MATCH (a), (b) RETURN a.v AS x UNION ALL MATCH (c) RETURN c.v AS x", false),
    ("UNWIND range(1, 30) AS x WITH collect(x) AS xs RETURN size(xs) AS n", false),
    ("MATCH (a) OPTIONAL MATCH (a)-->(b) RETURN a.v AS x, b.v AS y", false),
    ("MATCH (a), (b), (c) RETURN count(*) AS n", false),
    ("MATCH (a), (b) WITH DISTINCT a.v AS x RETURN x ORDER BY x", true),
    ("UNWIND range(1, 20) AS x UNWIND range(1, 5) AS y RETURN DISTINCT x", false),
    ("MATCH (a)-->(b) RETURN a.v AS x, collect(b.v) AS ys", false),
    ("UNWIND range(1, 40) AS x RETURN x SKIP 3", false),
    ("MATCH (a), (b) RETURN a.v AS x, b.v AS y SKIP 2 LIMIT 5", false),
    ("UNWIND range(1, 40) AS x RETURN count(*) AS c", false),
    ("UNWIND range(1, 30) AS x WITH x SKIP 1 RETURN x ORDER BY x", true),
];

fn render_rows(rows: &[ndb_query::Row], ordered: bool) -> Vec<String> {
    let mut v: Vec<String> = rows.iter().map(|r| format!("{:?}", r.columns())).collect();
    if !ordered {
        v.sort();
    }
    v
}

enum Outcome {
    Rows(Vec<String>),
    Limit(String),
    Other(String),
}

impl Check for LimitsCheck {
    fn id(&self) -> &'static str {
        "C33"
    }
    fn budget(&self, tier: &str) -> usize {
        if tier == "thorough" { 1_000_000 } else { 30_000 }
    }
    fn gen_case(&self, seed: u64, idx: usize, _tier: &str, _avoid: &[String]) -> Case {
        let mut rng = Rng::new(seed, "workload");
        let nodes = rng.range(3, 9) as usize;
        let ne = rng.range(0, (nodes * 2) as u64) as usize;
        let edges: Vec<(usize, usize)> = (0..ne).map(|_| (rng.usize_below(nodes), rng.usize_below(nodes))).collect();
        let (q, ordered) = QUERIES[idx % QUERIES.len()];
        let limit_sets: Vec<(usize, usize, usize)> = (0..6)
            .map(|_| {
                (
                    *rng.pick(&[1usize, 2, 5, 10, 30, 100, 1000, 1_000_000]),
                    *rng.pick(&[1usize, 3, 10, 25, 100, 1_000_000]),
                    *rng.pick(&[1usize, 2, 8, 1_000_000]),
                )
            })
            .collect();
        let p = LimParams { nodes, edges, query: q.to_string(), ordered, limit_sets };
        Case { property: "C33".into(), config: "limits_and_deadline".into(), seed, params: serde_json::to_value(&p).unwrap(), ..Default::default() }
    }
    fn run_case(&self, case: &Case) -> CaseResult {
        let mut res = CaseResult::default();
        let p: LimParams = match serde_json::from_value(case.params.clone()) {
            Ok(p) => p,
            Err(e) => {
                res.harness_error = Some(format!("bad params: {e}"));
                return res;
            }
        };
        let sb = Sandbox::new("c33");
        let world = Arc::new(World::build(&sb.dir, case.seed, None, false));
        let _g = world.install();
        let db = match ndb_core::Db::open(sb.dir.join("g")) {
            Ok(d) => d,
            Err(e) => {
                res.harness_error = Some(e.to_string());
                return res;
            }
        };
        // build the graph
        {
            let huge = ndb_query::ExecuteOptions { max_intermediate_rows: usize::MAX / 2, max_collection_items: usize::MAX / 2, soft_timeout_ms: 0, max_apply_rows_per_outer: usize::MAX / 2 };
            let params = ndb_query::Params::with_execute_options(huge);
            let mut stmts: Vec<String> = (0..p.nodes).map(|i| format!("CREATE (:N {{v: {i}}})")).collect();
            for (a, b) in &p.edges {
                stmts.push(format!("MATCH (a:N {{v: {a}}}), (b:N {{v: {b}}}) CREATE (a)-[:E]->(b)"));
            }
            for s in stmts {
                let snap = db.snapshot();
                let mut txn = db.begin_write();
                let r = ndb_query::prepare(&s).and_then(|q| q.execute_write(&snap, &mut txn, &params));
                if let Err(e) = r {
                    res.harness_error = Some(format!("setup {s}: {e}"));
                    return res;
                }
                if let Err(e) = txn.commit() {
                    res.harness_error = Some(format!("setup commit: {e}"));
                    return res;
                }
            }
        }
        let prepared = match ndb_query::prepare(&p.query) {
            Ok(q) => q,
            Err(e) => {
                res.stats.inc("query_not_supported");
                let _ = e;
                return res;
            }
        };
        let snapshot = db.snapshot();
        let run = |opts: ndb_query::ExecuteOptions| -> Outcome {
            let params = ndb_query::Params::with_execute_options(opts);
            let r = std::panic::catch_unwind(std::panic::AssertUnwindSafe(|| {
                let r: Result<Vec<ndb_query::Row>, ndb_query::Error> = prepared.execute_streaming(&snapshot, &params).collect();
                r
            }));
            let r = match r {
                Ok(r) => r,
                Err(p) => return Outcome::Other(format!("panic: {}", crate::dump::panic_msg(p))),
            };
            match r {
                Ok(rows) => Outcome::Rows(render_rows(&rows, p.ordered)),
                Err(ndb_query::Error::ResourceLimitExceeded { kind, stage, .. }) => Outcome::Limit(format!("{kind:?}@{stage}")),
                Err(e) => Outcome::Other(e.to_string()),
            }
        };
        let unlimited = ndb_query::ExecuteOptions { max_intermediate_rows: usize::MAX / 2, max_collection_items: usize::MAX / 2, soft_timeout_ms: 0, max_apply_rows_per_outer: usize::MAX / 2 };
        let full = match run(unlimited.clone()) {
            Outcome::Rows(r) => r,
            Outcome::Limit(l) => {
                res.viols.push(Viol { class: "limit_error_without_limits".into(), detail: l, focus: None, schedule: None });
                return res;
            }
            Outcome::Other(e) => {
                res.stats.inc("query_failed_unlimited");
                let _ = e;
                return res;
            }
        };
        res.stats.sample(json!({ "seed": case.seed, "query": p.query, "nodes": p.nodes, "edges": p.edges.len(), "full_rows": full.len() }));
        let qtag: String = p.query.chars().filter(|c| c.is_ascii_uppercase()).take(24).collect();
        // (2) row / collection limits
        for (rows_lim, coll_lim, apply_lim) in &p.limit_sets {
            let opts = ndb_query::ExecuteOptions { max_intermediate_rows: *rows_lim, max_collection_items: *coll_lim, soft_timeout_ms: 0, max_apply_rows_per_outer: *apply_lim };
            res.stats.inc("evaluations");
            res.stats.see("limit_points", crate::prng::fnv(&format!("{}{rows_lim}/{coll_lim}/{apply_lim}/{}", p.query, p.nodes)));
            match run(opts) {
                Outcome::Rows(r) => {
                    if r != full {
                        res.viols.push(Viol {
                            class: format!("truncated_result_under_limits:{qtag}"),
                            detail: format!("{} with limits rows={rows_lim} coll={coll_lim} apply={apply_lim}: Ok with {} rows, unlimited has {} rows", p.query, r.len(), full.len()),
                            focus: None,
                            schedule: None,
                        });
                    } else {
                        res.stats.inc("probe:complete_under_limits");
                    }
                }
                Outcome::Limit(_) => res.stats.inc("probe:limit_error"),
                Outcome::Other(e) => res.viols.push(Viol {
                    class: format!("wrong_error_kind_under_limits:{qtag}"),
                    detail: format!("{} with limits rows={rows_lim} coll={coll_lim}: {e}", p.query),
                    focus: None,
                    schedule: None,
                }),
            }
        }
        // (3) soft timeout: the deadline is crossed at the i-th clock read, i swept over all reads
        let timed = ndb_query::ExecuteOptions { max_intermediate_rows: usize::MAX / 2, max_collection_items: usize::MAX / 2, soft_timeout_ms: 1000, max_apply_rows_per_outer: usize::MAX / 2 };
        let reset = |jump: Option<(u64, u64)>| {
            let mut c = world.clock.lock().unwrap();
            c.mono_reads = 0;
            c.mono_step = 1_000;
            c.mono_jump_at = jump;
            // watchdog against loops that keep polling an expired deadline forever
            c.mono_read_cap = Some(200_000);
        };
        reset(None);
        let dry = run(timed.clone());
        let total_reads = world.clock.lock().unwrap().mono_reads;
        if !matches!(dry, Outcome::Rows(ref r) if *r == full) {
            res.viols.push(Viol { class: format!("timeout_without_deadline:{qtag}"), detail: format!("{}: result differs with a timeout that never fires", p.query), focus: None, schedule: None });
            return res;
        }
        res.stats.add("clock_reads", total_reads);
        let focus_i: Option<u64> = case.focus.as_ref().and_then(|f| f.as_u64());
        let stride = (total_reads / 150).max(1);
        let mut i = 2;
        while i <= total_reads {
            if let Some(fi) = focus_i
                && fi != i
            {
                i += 1;
                continue;
            }
            reset(Some((i, 5_000_000_000)));
            res.stats.inc("evaluations");
            res.stats.inc("fault:deadline_fire");
            res.stats.see("limit_points", crate::prng::fnv(&format!("{}deadline{i}/{}", p.query, p.nodes)));
            let out = run(timed.clone());
            let reads_after = world.clock.lock().unwrap().mono_reads.saturating_sub(i);
            match out {
                Outcome::Rows(r) => {
                    if r != full {
                        res.viols.push(Viol {
                            class: format!("truncated_result_after_deadline:{qtag}"),
                            detail: format!("{}: deadline crossed at clock read {i} of {total_reads}: Ok with {} rows, complete result has {} rows", p.query, r.len(), full.len()),
                            focus: Some(json!(i)),
                            schedule: None,
                        });
                        break;
                    }
                    res.stats.inc("probe:complete_despite_deadline");
                }
                Outcome::Limit(l) => {
                    res.stats.inc("probe:timeout_error");
                    if l.contains("DISTINCT") || l.contains("Aggregate") || l.contains("OrderBy") {
                        res.stats.inc("probe:deadline_fired_inside_distinct_or_aggregate");
                    }
                    if reads_after > 64 {
                        res.viols.push(Viol {
                            class: format!("unbounded_work_after_deadline:{qtag}"),
                            detail: format!("{}: {reads_after} further clock reads after the deadline was first observable (read {i})", p.query),
                            focus: Some(json!(i)),
                            schedule: None,
                        });
                        break;
                    }
                }
                Outcome::Other(e) if e.contains("sim clock read cap exceeded") => {
                    res.stats.inc("probe:endless_polling_after_deadline");
                    res.viols.push(Viol {
                        class: format!("never_stops_after_deadline:{qtag}"),
                        detail: format!("{}: deadline crossed at clock read {i} of {total_reads}: the query kept running and polled the expired deadline more than 200000 times without returning", p.query),
                        focus: Some(json!(i)),
                        schedule: None,
                    });
                    break;
                }
                Outcome::Other(e) => {
                    res.viols.push(Viol { class: format!("wrong_error_kind_after_deadline:{qtag}"), detail: format!("{}: {e}", p.query), focus: Some(json!(i)), schedule: None });
                    break;
                }
            }
            if focus_i.is_some() {
                break;
            }
            i += if total_reads > 150 { stride } else { 1 };
        }
        let mut seen = BTreeSet::new();
        res.viols.retain(|v| seen.insert(v.class.clone()));
        res
    }
    fn rule(&self) -> String {
        "Per case a generated graph (3-9 nodes, random relationships) and one of 18 query shapes with large intermediates (cartesian MATCH, UNWIND of ranges, variable-length expansion, DISTINCT, ORDER BY, SKIP / LIMIT, aggregation (grouped and ungrouped), UNION / UNION ALL, OPTIONAL MATCH, collect). The query runs (1) unlimited, (2) under 6 PRNG-chosen (row, collection, apply) limit sets, (3) under a soft timeout whose deadline the simulated monotonic clock crosses at the i-th clock read, i swept over every read the query performs (strided above 150). Oracle: every outcome is either exactly the unlimited rows (as multiset, or as sequence under ORDER BY) or an error of the resource-limit kind; after the first read that can observe the deadline at most 64 further clock reads happen before the error surfaces. evaluations = limited executions; distinct_nontrivial = distinct (query, graph size, limit set / deadline position) points.".into()
    }
    fn nontrivial_set(&self) -> &'static str {
        "limit_points"
    }
    fn assumptions(&self) -> Vec<String> {
        vec![
            "Simulated time only advances when the executor reads the clock; real CPU time between checks is not observable here (that part of C16 is not applicable).".into(),
            "The query shapes are fixed templates; generated queries in the sense of C11 are not attempted.".into(),
        ]
    }
    fn real_vs_stub(&self) -> serde_json::Value {
        json!({
            "real": ["nervusdb-query parser/planner/executor incl. runtime guards", "nervusdb-storage snapshot reads"],
            "stub": ["monotonic clock behind the soft timeout (simulated, jumps at a chosen read)", "fsync"],
            "not_run": ["C API / bindings (limits are set through the Rust API)"]
        })
    }
}
