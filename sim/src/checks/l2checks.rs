//! Statement-level checks through the C API: C13 (a failed statement has no
//! effect), C14 (no dangling relationships / connected deletes fail), C24
//! (transactions see their own writes).

use crate::capi::CDb;
use crate::framework::{Case, CaseResult, Check, Stats, Viol};
use crate::l1::Sandbox;
use crate::l2::{L2Knobs, L2Model, SOp, Stmt, cypher_dump, exec_sop, gen_session, l2_diff};
use crate::prng::Rng;
use crate::world::World;
use serde_json::json;

pub fn checks() -> Vec<&'static dyn Check> {
    static C13: L2Check = L2Check { id: "C13" };
    static C14: L2Check = L2Check { id: "C14" };
    static C24: L2Check = L2Check { id: "C24" };
    vec![&C13, &C14, &C24]
}

pub struct L2Check {
    pub id: &'static str,
}

pub fn sops_of(case: &Case) -> Vec<SOp> {
    case.ops.iter().filter_map(|v| serde_json::from_value(v.clone()).ok()).collect()
}

#[derive(Debug, Clone)]
pub struct Bad {
    pub at: usize,
    pub kind: &'static str,
    pub classes: String,
    pub detail: String,
    /// some statement of this op returned an error
    pub op_had_error: bool,
    /// a statement the model expects to fail (connected delete) returned Ok
    pub connected_delete_ok: bool,
}

pub struct SessionRun {
    pub bad: Option<Bad>,
    /// (op index, stmt index) of statements that returned an error
    pub errored: Vec<(usize, usize)>,
    pub expected_error_missing: usize,
}

pub fn classes(d: &[(String, String)]) -> String {
    let mut c: Vec<&str> = d.iter().map(|(c, _)| c.as_str()).collect();
    c.sort();
    c.dedup();
    c.join("+")
}

pub fn run_session(ops: &[SOp], seed: u64, stats: &mut Stats, tag: &str) -> Result<SessionRun, String> {
    let sb = Sandbox::new(tag);
    let world = World::new(&sb.dir, seed);
    let _g = world.install();
    let base = sb.dir.join("g");
    let mut db = Some(CDb::open(&base).map_err(|e| format!("open: {}", e.message))?);
    let mut model = L2Model::default();
    let mut run = SessionRun { bad: None, errored: Vec::new(), expected_error_missing: 0 };
    for (i, op) in ops.iter().enumerate() {
        let out = exec_sop(&mut db, &base, &mut model, op);
        stats.inc("evaluations");
        stats.inc(&format!("op:{}", op.kind()));
        let mut op_had_error = false;
        let mut connected_delete_ok = false;
        let stmts: Vec<&Stmt> = match op {
            SOp::Auto(s) => vec![s],
            SOp::Txn { stmts, .. } => stmts.iter().collect(),
            _ => vec![],
        };
        for (j, (want_ok, got_ok, _msg)) in out.stmts.iter().enumerate() {
            if !got_ok {
                op_had_error = true;
                run.errored.push((i, j));
                stats.inc("fault:stmt_fault");
                if !want_ok {
                    stats.inc("probe:statement_failed_as_expected");
                } else {
                    stats.inc("statement_failed_unexpectedly");
                    if std::env::var("VERIF_DEBUG").is_ok() {
                        eprintln!("UNEXPECTED-FAIL {:?} :: {}", stmts.get(j).map(|s| s.cypher()), _msg);
                    }
                }
            } else if !want_ok {
                run.expected_error_missing += 1;
                if std::env::var("VERIF_DEBUG").is_ok() {
                    eprintln!("EXPECTED-ERROR-MISSING {} {:?}", op.kind(), stmts.get(j).map(|s| s.cypher()));
                }
                if matches!(stmts.get(j), Some(Stmt::DeleteNode { .. }) | Some(Stmt::UnwindDelete { .. })) {
                    connected_delete_ok = true;
                }
            }
        }
        if let Some(e) = out.op_error {
            run.bad = Some(Bad { at: i, kind: op.kind(), classes: "op_failed".into(), detail: format!("op {i} ({}): {e}", op.kind()), op_had_error, connected_delete_ok });
            return Ok(run);
        }
        if connected_delete_ok {
            let texts: Vec<String> = stmts.iter().map(|s| s.cypher()).collect();
            run.bad = Some(Bad {
                at: i,
                kind: op.kind(),
                classes: "connected_delete_succeeded".into(),
                detail: format!("op {i} ({}): DELETE of a node that still has relationships returned success: {texts:?}", op.kind()),
                op_had_error,
                connected_delete_ok,
            });
            return Ok(run);
        }
        if run.expected_error_missing > 0 {
            // semantics of the statement differ from the model (not this family's concern)
            return Ok(run);
        }
        let Some(d) = db.as_ref() else { return Ok(run) };
        let (got, inv) = cypher_dump(d)?;
        if !model.nodes.is_empty() {
            stats.see("state_op_pairs", model.digest() ^ crate::prng::fnv(op.kind()));
        }
        let mut diffs = l2_diff(&got, &model);
        for (c, t) in inv {
            diffs.push((format!("inv:{c}"), t));
        }
        if !diffs.is_empty() {
            let detail: Vec<String> = diffs.iter().take(5).map(|(c, t)| format!("[{c}] {t}")).collect();
            let texts: Vec<String> = stmts.iter().map(|s| s.cypher()).collect();
            run.bad = Some(Bad {
                at: i,
                kind: op.kind(),
                classes: classes(&diffs),
                detail: format!("after op {i} ({}) {texts:?}: {}", op.kind(), detail.join("; ")),
                op_had_error,
                connected_delete_ok,
            });
            return Ok(run);
        }
    }
    stats.add("io_steps", world.steps());
    Ok(run)
}

/// History with the erroring statements removed.
fn without_errored(ops: &[SOp], errored: &[(usize, usize)], upto: usize) -> Vec<SOp> {
    let mut out = Vec::new();
    for (i, op) in ops.iter().enumerate().take(upto + 1) {
        match op {
            SOp::Auto(_) if errored.contains(&(i, 0)) => {}
            SOp::Txn { stmts, commit } => {
                let s: Vec<Stmt> = stmts.iter().enumerate().filter(|(j, _)| !errored.contains(&(i, *j))).map(|(_, s)| s.clone()).collect();
                if !s.is_empty() {
                    out.push(SOp::Txn { stmts: s, commit: *commit });
                }
            }
            o => out.push(o.clone()),
        }
    }
    out
}

/// History with every committed transaction split into auto-commit statements.
fn split_txns(ops: &[SOp], upto: usize) -> Vec<SOp> {
    let mut out = Vec::new();
    for op in ops.iter().take(upto + 1) {
        match op {
            SOp::Txn { stmts, commit: true } => out.extend(stmts.iter().cloned().map(SOp::Auto)),
            SOp::Txn { commit: false, .. } => {}
            o => out.push(o.clone()),
        }
    }
    out
}

impl L2Check {
    fn knobs(&self, rng: &mut Rng) -> L2Knobs {
        // weights: create_node, create_edge, set_prop, set_map_merge, add_label, remove_label, remove_prop,
        // delete_edge, delete_node, detach_delete, merge, unwind_create, unwind_set, unwind_delete
        let mut k = L2Knobs {
            n_ops: rng.range(2, 10) as usize,
            p_txn: 0.3,
            p_fail: 0.0,
            max_txn_stmts: rng.range(2, 5) as usize,
            w_stmt: [10, 8, 8, 3, 2, 1, 2, 2, 2, 2, 4, 4, 3, 1],
            reopen: rng.chance(0.3),
            compact: false,
            avoid: Vec::new(),
            compact_at: None,
        };
        match self.id {
            "C13" => {
                k.p_fail = 0.6;
                k.p_txn = *rng.pick(&[0.2, 0.6]);
                k.w_stmt[11] = 10;
                k.w_stmt[12] = 8;
                k.w_stmt[13] = 5;
                k.w_stmt[8] = 5;
                k.w_stmt[1] = 10;
                if rng.chance(0.2) {
                    // statements failing over data that already sits in a compacted segment
                    k.n_ops = rng.range(4, 12) as usize;
                    k.compact_at = Some(rng.range(1, k.n_ops as u64 - 2) as usize);
                    k.reopen = false;
                }
            }
            "C14" => {
                k.p_txn = *rng.pick(&[0.2, 0.6]);
                k.w_stmt[1] = 14;
                k.w_stmt[8] = 8;
                k.w_stmt[9] = 6;
                k.w_stmt[13] = 5;
                k.w_stmt[7] = 4;
                if rng.chance(0.4) {
                    // relationships in a compacted segment, endpoints deleted afterwards
                    k.n_ops = rng.range(4, 12) as usize;
                    k.compact_at = Some(rng.range(1, k.n_ops as u64 - 2) as usize);
                    k.reopen = false;
                }
            }
            _ => {
                // C24
                k.p_txn = 0.8;
                k.max_txn_stmts = rng.range(2, 6) as usize;
                k.w_stmt[13] = 0;
                if rng.chance(0.2) {
                    k.n_ops = rng.range(4, 12) as usize;
                    k.compact_at = Some(rng.range(1, k.n_ops as u64 - 2) as usize);
                    k.reopen = false;
                }
            }
        }
        k
    }
}

impl Check for L2Check {
    fn id(&self) -> &'static str {
        self.id
    }
    fn budget(&self, tier: &str) -> usize {
        if tier == "thorough" { 2_000_000 } else { 30_000 }
    }
    fn gen_case(&self, seed: u64, _idx: usize, _tier: &str, avoid: &[String]) -> Case {
        let mut rng = Rng::new(seed, "workload");
        let mut k = self.knobs(&mut rng);
        if avoid.iter().any(|a| a == "l2_label_ops_then_reopen") {
            // F05 (labels lost after checkpointed reopen) is reachable through SET n:L / REMOVE n:L + reopen
            if k.reopen {
                k.w_stmt[4] = 0;
                k.w_stmt[5] = 0;
            }
        }
        k.avoid = avoid.to_vec();
        let ops = gen_session(&mut rng, &k);
        Case {
            property: self.id.to_string(),
            config: "statement_sessions".into(),
            seed,
            knobs: serde_json::to_value(&k).unwrap(),
            ops: ops.iter().map(|o| serde_json::to_value(o).unwrap()).collect(),
            ..Default::default()
        }
    }
    fn run_case(&self, case: &Case) -> CaseResult {
        let mut res = CaseResult::default();
        let ops = sops_of(case);
        if ops.len() != case.ops.len() {
            res.harness_error = Some("cannot decode ops".into());
            return res;
        }
        let run = match run_session(&ops, case.seed, &mut res.stats, self.id) {
            Ok(r) => r,
            Err(e) => {
                res.harness_error = Some(e);
                return res;
            }
        };
        res.stats.sample(json!({
            "seed": case.seed,
            "ops": ops.iter().take(6).map(|o| match o {
                SOp::Auto(s) => json!(s.cypher()),
                SOp::Txn { stmts, commit } => json!({"txn": stmts.iter().map(|s| s.cypher()).collect::<Vec<_>>(), "commit": commit}),
                o => json!(o.kind()),
            }).collect::<Vec<_>>()
        }));
        if run.expected_error_missing > 0 {
            res.stats.add("expected_error_missing", run.expected_error_missing as u64);
        }
        let Some(bad) = run.bad else { return res };
        let mut push = |class: String, detail: String| {
            res.viols.push(Viol { class, detail, focus: None, schedule: None });
        };
        match self.id {
            "C14" => {
                if bad.connected_delete_ok {
                    push(format!("connected_delete_succeeded:{}", bad.kind), bad.detail);
                } else if bad.classes.contains("inv:dangling_relationship") || bad.classes.contains("inv:out_in_asymmetry") {
                    push(format!("{}:{}", bad.kind, bad.classes), bad.detail);
                } else {
                    res.stats.inc("foreign_discrepancy");
                }
            }
            "C13" => {
                if bad.connected_delete_ok || bad.classes == "op_failed" {
                    res.stats.inc("foreign_discrepancy");
                    return res;
                }
                // attributable if some statement errored and the history without the errored statements is clean
                let upto = bad.at;
                let errored: Vec<(usize, usize)> = run.errored.iter().copied().filter(|(i, _)| *i <= upto).collect();
                if errored.is_empty() {
                    res.stats.inc("foreign_discrepancy");
                    return res;
                }
                let twin = without_errored(&ops, &errored, upto);
                let mut scratch = Stats::default();
                match run_session(&twin, case.seed, &mut scratch, self.id) {
                    Ok(t) if t.bad.is_none() && t.expected_error_missing == 0 => {
                        let mode = if ops[..=upto].iter().enumerate().any(|(i, o)| matches!(o, SOp::Txn { .. }) && errored.iter().any(|(e, _)| *e == i)) {
                            "in_txn"
                        } else {
                            "auto_commit"
                        };
                        push(format!("failed_statement_had_effect:{mode}:{}", bad.classes), format!("(history without the failed statements is clean) {}", bad.detail));
                    }
                    Ok(_) => res.stats.inc("foreign_discrepancy"),
                    Err(e) => res.harness_error = Some(e),
                }
            }
            _ => {
                // C24
                if bad.connected_delete_ok || bad.classes == "op_failed" || bad.op_had_error {
                    res.stats.inc("foreign_discrepancy");
                    return res;
                }
                if bad.kind != "txn" {
                    res.stats.inc("foreign_discrepancy");
                    return res;
                }
                let twin = split_txns(&ops, bad.at);
                let mut scratch = Stats::default();
                match run_session(&twin, case.seed, &mut scratch, self.id) {
                    Ok(t) if t.bad.is_none() && t.expected_error_missing == 0 => {
                        push(format!("txn_does_not_see_own_writes:{}", bad.classes), format!("(the same statements as separate auto-commit statements give the expected result) {}", bad.detail));
                    }
                    Ok(_) => res.stats.inc("foreign_discrepancy"),
                    Err(e) => res.harness_error = Some(e),
                }
            }
        }
        res
    }
    fn rule(&self) -> String {
        match self.id {
            "C13" => "Generated sessions of Cypher write statements through the C API (auto-commit via ndb_execute_write, explicit transactions via ndb_begin_write / ndb_txn_query / ndb_txn_commit|rollback), from a template grammar with a model function per template. Fault: multi-row statements whose evaluation fails at a PRNG-chosen row (type error in a property expression of UNWIND..CREATE / UNWIND..MATCH..SET, DELETE of a connected node at row k). After every operation the graph is read back through Cypher (nodes, outgoing and incoming relationship views) and compared with the model in which statements that returned an error have no effect; a discrepancy is attributed only if the same history without the failed statements is clean. evaluations = operations executed and compared; distinct_nontrivial = distinct (model state, op kind) pairs.".into(),
            "C14" => "Same generator, weighted towards relationship creation and (DETACH) DELETE, including create-then-delete inside one explicit transaction and after commit. Violation: a DELETE of a node that still has relationships (per the model, including relationships created earlier in the same transaction) returns success; or any read returns a relationship whose endpoint is not a node of the same snapshot; or the outgoing and incoming relationship views differ. (The storage-level variant of the invariant is evaluated inside every dump of every other configuration.)".into(),
            _ => "Same generator with 80% explicit multi-statement transactions in which later statements MATCH / SET / MERGE / DELETE what earlier ones created. The model applies each statement to the transaction-local state; a discrepancy after commit is attributed only if the same statements run as separate auto-commit statements give the expected result.".into(),
        }
    }
    fn nontrivial_set(&self) -> &'static str {
        "state_op_pairs"
    }
    fn assumptions(&self) -> Vec<String> {
        vec![
            "The template model covers only the statement shapes listed in DESIGN.md §2.6; it is not a Cypher reference evaluator (C11/C12 are not applicable to this technique). Statements whose success/failure disagrees with the model in other ways are counted and the case is abandoned, not reported.".into(),
            "Generators never create two relationships with the same (start, type, end) and never re-create a deleted relationship key (the storage API shares one property map per key).".into(),
        ]
    }
    fn real_vs_stub(&self) -> serde_json::Value {
        json!({
            "real": ["nervusdb-capi entry points", "nervusdb-query", "nervusdb-storage", "file I/O on tmpfs"],
            "stub": ["wall clock feeding node ids (deterministic simulated clock)", "fsync"],
            "not_run": ["nervusdb-pyo3 / node bindings"]
        })
    }
}
