//! C09: concurrent auto-commit write statements through the C API behave as if
//! executed one at a time (no lost update, no duplicate conditional create).

use crate::capi::CDb;
use crate::checks::conc::{Program, gen_mode, run_threads};
use crate::framework::{Case, CaseResult, Check, Viol};
use crate::l1::Sandbox;
use crate::prng::Rng;
use crate::sched::{Outcome, SchedMode};
use serde::{Deserialize, Serialize};
use serde_json::json;
use std::collections::BTreeMap;
use std::sync::{Arc, Mutex};

pub fn checks() -> Vec<&'static dyn Check> {
    static C09: AutoCommitCheck = AutoCommitCheck;
    vec![&C09]
}

#[derive(Serialize, Deserialize, Clone, Debug, PartialEq)]
pub enum Stmt {
    /// MATCH (n:C {id:$id}) SET n.v = n.v + 1
    Inc(i64),
    /// MERGE (n:K {id:$id})
    Merge(i64),
    /// MATCH (n:C {id:$id}) SET n.w = n.v   (copy computed from a read value)
    Copy(i64),
    /// MERGE (s:S$k): conditional create of a node without properties (its commit
    /// publishes no run, only the node table)
    MergeBare(i64),
    /// MATCH (j:C {id:$id}) WHERE NOT j:Taken SET j:Taken CREATE (:Receipt$id): a claim by
    /// label; at most one receipt per job
    Claim(i64),
}

impl Stmt {
    fn cypher(&self) -> String {
        match self {
            Stmt::Inc(id) => format!("MATCH (n:C {{id: {id}}}) SET n.v = n.v + 1"),
            Stmt::Merge(id) => format!("MERGE (n:K {{id: {id}}})"),
            Stmt::Copy(id) => format!("MATCH (n:C {{id: {id}}}) SET n.w = n.v"),
            Stmt::MergeBare(k) => format!("MERGE (s:S{k})"),
            Stmt::Claim(id) => format!("MATCH (j:C {{id: {id}}}) WHERE NOT j:Taken SET j:Taken CREATE (:Receipt{id})"),
        }
    }
}

#[derive(Serialize, Deserialize, Clone, Debug)]
pub struct Params {
    pub mode: SchedMode,
    pub threads: Vec<Vec<Stmt>>,
    pub step_cap: u64,
}

pub struct AutoCommitCheck;

pub fn json_i64(v: &serde_json::Value) -> Option<i64> {
    v.as_i64().or_else(|| v.as_f64().map(|f| f as i64))
}

impl Check for AutoCommitCheck {
    fn id(&self) -> &'static str {
        "C09"
    }
    fn budget(&self, tier: &str) -> usize {
        if tier == "thorough" { 200_000 } else { 8_000 }
    }
    fn gen_case(&self, seed: u64, _idx: usize, _tier: &str, _avoid: &[String]) -> Case {
        let mut rng = Rng::new(seed, "workload");
        let n = rng.range(2, 4) as usize;
        let mut threads = Vec::new();
        for _ in 0..n {
            let k = rng.range(1, 3) as usize;
            threads.push(
                (0..k)
                    .map(|_| match rng.below(16) {
                        0..=5 => Stmt::Inc(1 + rng.below(2) as i64),
                        6..=8 => Stmt::Merge(7 + rng.below(2) as i64),
                        9 => Stmt::Copy(1),
                        10..=12 => Stmt::MergeBare(rng.below(2) as i64),
                        _ => Stmt::Claim(1 + rng.below(2) as i64),
                    })
                    .collect(),
            );
        }
        let params = Params { mode: gen_mode(&mut rng), threads, step_cap: 200_000 };
        Case {
            property: "C09".into(),
            config: "capi_autocommit".into(),
            seed,
            params: serde_json::to_value(&params).unwrap(),
            ..Default::default()
        }
    }
    fn run_case(&self, case: &Case) -> CaseResult {
        let mut res = CaseResult::default();
        let params: Params = match serde_json::from_value(case.params.clone()) {
            Ok(p) => p,
            Err(e) => {
                res.harness_error = Some(format!("bad params: {e}"));
                return res;
            }
        };
        let sb = Sandbox::new("c09");
        let db_slot: Arc<Mutex<Option<Arc<CDb>>>> = Arc::new(Mutex::new(None));
        // per thread: (stmt, ok?)
        let outcomes: Arc<Mutex<Vec<(usize, Stmt, Result<u32, String>)>>> = Arc::new(Mutex::new(Vec::new()));
        let mut programs: Vec<(String, Program)> = Vec::new();
        for (t, stmts) in params.threads.iter().enumerate() {
            let slot = db_slot.clone();
            let stmts = stmts.clone();
            let out = outcomes.clone();
            programs.push((
                format!("client{t}"),
                Box::new(move || {
                    let db = slot.lock().unwrap().clone().unwrap();
                    for s in &stmts {
                        let r = db.exec_write(&s.cypher()).map_err(|e| e.message);
                        out.lock().unwrap().push((t, s.clone(), r));
                    }
                }),
            ));
        }
        let slot2 = db_slot.clone();
        let base = sb.dir.join("g");
        let mut setup_err = None;
        let run = run_threads(&sb.dir, case.seed, params.mode.clone(), params.step_cap, case.schedule.clone(), programs, |world| {
            let _g = world.install();
            match CDb::open(&base) {
                Ok(db) => {
                    for q in ["CREATE (:C {id: 1, v: 0})", "CREATE (:C {id: 2, v: 0})"] {
                        if let Err(e) = db.exec_write(q) {
                            setup_err = Some(e.message);
                        }
                    }
                    *slot2.lock().unwrap() = Some(Arc::new(db));
                }
                Err(e) => setup_err = Some(e.message),
            }
        });
        if let Some(e) = setup_err {
            res.harness_error = Some(format!("setup: {e}"));
            return res;
        }
        res.stats.inc("evaluations");
        res.stats.add("sched_steps", run.steps);
        res.stats.add("context_switches", run.switches);
        res.stats.see("schedules", run.ctx_hash);
        if run.diverged.is_some() {
            res.stats.inc("replay_schedule_diverged");
        }
        let schedule = Some(run.decisions.clone());
        match &run.outcome {
            Err(e) => {
                res.harness_error = Some(format!("scheduler: {e}"));
                return res;
            }
            Ok(Outcome::Completed) => {}
            Ok(Outcome::Deadlock(d)) => {
                res.viols.push(Viol { class: "deadlock".into(), detail: d.clone(), focus: None, schedule });
                return res;
            }
            Ok(_) => {
                res.stats.inc("inconclusive_step_cap");
                return res;
            }
        }
        for (name, msg) in &run.panics {
            res.viols.push(Viol { class: "panic".into(), detail: format!("{name}: {msg}"), focus: None, schedule: schedule.clone() });
        }
        // read the final state (single-threaded, hooks without scheduler identity)
        let db = db_slot.lock().unwrap().take().unwrap();
        let world = crate::world::World::new(&sb.dir, case.seed);
        let _g = world.install();
        let outs = outcomes.lock().unwrap().clone();
        let mut want_v: BTreeMap<i64, i64> = BTreeMap::from([(1, 0), (2, 0)]);
        let mut merged: BTreeMap<i64, u32> = BTreeMap::new();
        let mut merged_bare: BTreeMap<i64, u32> = BTreeMap::new();
        let mut claims: BTreeMap<i64, u32> = BTreeMap::new();
        let mut failed = 0;
        for (_, s, r) in &outs {
            match (s, r) {
                (Stmt::Inc(id), Ok(_)) => *want_v.entry(*id).or_default() += 1,
                (Stmt::Merge(id), Ok(_)) => *merged.entry(*id).or_default() += 1,
                (Stmt::MergeBare(k), Ok(_)) => *merged_bare.entry(*k).or_default() += 1,
                (Stmt::Claim(id), Ok(_)) => *claims.entry(*id).or_default() += 1,
                (_, Err(_)) => failed += 1,
                _ => {}
            }
        }
        if failed > 0 {
            res.stats.add("statements_failed", failed);
        }
        res.stats.sample(json!({
            "seed": case.seed, "mode": params.mode,
            "threads": params.threads.iter().map(|t| t.iter().map(|s| s.cypher()).collect::<Vec<_>>()).collect::<Vec<_>>(),
            "sched_steps": run.steps, "switches": run.switches,
        }));
        match db.query("MATCH (n:C) RETURN n.id AS id, n.v AS v") {
            Ok(rows) => {
                let mut got: BTreeMap<i64, i64> = BTreeMap::new();
                for r in rows.as_array().cloned().unwrap_or_default() {
                    if let (Some(id), Some(v)) = (r.get("id").and_then(json_i64), r.get("v").and_then(json_i64)) {
                        got.insert(id, v);
                    }
                }
                if got != want_v {
                    let lost: i64 = want_v.iter().map(|(k, v)| v - got.get(k).copied().unwrap_or(0)).sum();
                    if lost != 0 {
                        res.stats.inc("probe:lost_update_observed");
                    }
                    res.viols.push(Viol {
                        class: "lost_update".into(),
                        detail: format!("counters after {} acknowledged increments: got {got:?}, want {want_v:?} (rows: {rows})", want_v.values().sum::<i64>()),
                        focus: None,
                        schedule: schedule.clone(),
                    });
                }
            }
            Err(e) => res.viols.push(Viol { class: "final_read_failed".into(), detail: e.message, focus: None, schedule: schedule.clone() }),
        }
        if !merged.is_empty() {
            match db.query("MATCH (n:K) RETURN n.id AS id") {
                Ok(rows) => {
                    let mut cnt: BTreeMap<i64, u32> = BTreeMap::new();
                    for r in rows.as_array().cloned().unwrap_or_default() {
                        if let Some(id) = r.get("id").and_then(json_i64) {
                            *cnt.entry(id).or_default() += 1;
                        }
                    }
                    for id in merged.keys() {
                        let c = cnt.get(id).copied().unwrap_or(0);
                        if c != 1 {
                            res.viols.push(Viol {
                                class: if c > 1 { "duplicate_conditional_create".into() } else { "merge_lost".into() },
                                detail: format!("{} acknowledged MERGE (n:K {{id:{id}}}) statements left {c} such nodes", merged[id]),
                                focus: None,
                                schedule: schedule.clone(),
                            });
                        }
                    }
                }
                Err(e) => res.viols.push(Viol { class: "final_read_failed".into(), detail: e.message, focus: None, schedule: schedule.clone() }),
            }
        }
        for (k, n) in &merged_bare {
            match db.query(&format!("MATCH (s:S{k}) RETURN count(s) AS c")) {
                Ok(rows) => {
                    let c = rows.as_array().and_then(|a| a.first()).and_then(|r| r.get("c")).and_then(json_i64).unwrap_or(-1);
                    if c != 1 {
                        res.viols.push(Viol {
                            class: if c > 1 { "duplicate_conditional_create".into() } else { "merge_lost".into() },
                            detail: format!("{n} acknowledged MERGE (s:S{k}) statements left {c} such nodes"),
                            focus: None,
                            schedule: schedule.clone(),
                        });
                    }
                }
                Err(e) => res.viols.push(Viol { class: "final_read_failed".into(), detail: e.message, focus: None, schedule: schedule.clone() }),
            }
        }
        for (id, n) in &claims {
            match db.query(&format!("MATCH (r:Receipt{id}) RETURN count(r) AS c")) {
                Ok(rows) => {
                    let c = rows.as_array().and_then(|a| a.first()).and_then(|r| r.get("c")).and_then(json_i64).unwrap_or(-1);
                    if c != 1 {
                        res.viols.push(Viol {
                            class: if c > 1 { "claim_granted_twice".into() } else { "claim_lost".into() },
                            detail: format!("{n} acknowledged claims of job {id} left {c} receipts"),
                            focus: None,
                            schedule: schedule.clone(),
                        });
                    }
                }
                Err(e) => res.viols.push(Viol { class: "final_read_failed".into(), detail: e.message, focus: None, schedule: schedule.clone() }),
            }
        }
        drop(db);
        let mut seen = std::collections::BTreeSet::new();
        res.viols.retain(|v| seen.insert(v.class.clone()));
        res
    }
    fn shrink_candidates(&self, case: &Case) -> Vec<Case> {
        crate::checks::conc::shrink_thread_programs(case)
    }
    fn rule(&self) -> String {
        "2-4 simulated client threads call ndb_execute_write (the auto-commit entry point the Python/Node bindings use) with read-modify-write statements on two shared counter nodes (SET n.v = n.v + 1), conditional creates (MERGE) on two shared keys, conditional creates of property-less nodes (MERGE (s:S), whose commit publishes only the node table), claims by label (WHERE NOT j:Taken SET j:Taken CREATE (:Receipt)) and copy statements, under the seeded cooperative scheduler; the gap between snapshot acquisition and writer-lock acquisition inside the entry point spans several scheduling points. Oracle: final counter == number of increments acknowledged with NDB_OK; exactly one node per merged key or bare label, exactly one receipt per claimed job. evaluations = simulated runs; distinct_nontrivial = distinct context-switch sequences.".into()
    }
    fn nontrivial_set(&self) -> &'static str {
        "schedules"
    }
    fn assumptions(&self) -> Vec<String> {
        vec!["Serializability is checked through its consequences for commutative increments and idempotent conditional creates, not by enumerating serial orders of arbitrary statements.".into()]
    }
    fn real_vs_stub(&self) -> serde_json::Value {
        json!({
            "real": ["nervusdb-capi extern \"C\" entry points", "nervusdb-query parser/planner/executor", "nervusdb-storage"],
            "stub": ["thread scheduling and lock blocking (simulator)", "wall clock used for node ids (simulated)", "fsync"],
            "not_run": ["Python / Node bindings themselves"]
        })
    }
}
