//! Reference model: a plain in-memory property graph with the sequential
//! meaning of the storage API, plus the operation vocabulary of L1 histories.

use ndb_api::PropertyValue;
use serde::{Deserialize, Serialize};
use std::collections::{BTreeMap, BTreeSet};

pub const LABELS: [&str; 4] = ["LA", "LB", "LC", "LD"];
pub const RELS: [&str; 3] = ["R0", "R1", "R2"];
pub const KEYS: [&str; 4] = ["k0", "k1", "k2", "k3"];

#[derive(Clone, Debug, Serialize, Deserialize, PartialEq)]
pub enum Val {
    Bool(bool),
    Int(i64),
    /// f64 by bit pattern (NaN payloads and -0.0 survive the replay file)
    F(u64),
    Str(String),
    /// `len` repetitions of `ch` followed by `tag` (large values, compact in replay files)
    Big { ch: char, len: usize, tag: u64 },
    Dt(i64),
    Blob(Vec<u8>),
    List(Vec<Val>),
    Map(BTreeMap<String, Val>),
}

impl Val {
    pub fn to_pv(&self) -> PropertyValue {
        match self {
            Val::Bool(b) => PropertyValue::Bool(*b),
            Val::Int(i) => PropertyValue::Int(*i),
            Val::F(bits) => PropertyValue::Float(f64::from_bits(*bits)),
            Val::Str(s) => PropertyValue::String(s.clone()),
            Val::Big { ch, len, tag } => {
                let mut s: String = std::iter::repeat_n(*ch, *len).collect();
                s.push_str(&tag.to_string());
                PropertyValue::String(s)
            }
            Val::Dt(i) => PropertyValue::DateTime(*i),
            Val::Blob(b) => PropertyValue::Blob(b.clone()),
            Val::List(l) => PropertyValue::List(l.iter().map(|v| v.to_pv()).collect()),
            Val::Map(m) => {
                PropertyValue::Map(m.iter().map(|(k, v)| (k.clone(), v.to_pv())).collect())
            }
        }
    }
    pub fn canon(&self) -> String {
        canon(&self.to_pv())
    }
}

/// Canonical, injective rendering of a property value (floats by bit pattern).
pub fn canon(v: &PropertyValue) -> String {
    match v {
        PropertyValue::Null => "null".into(),
        PropertyValue::Bool(b) => format!("b:{b}"),
        PropertyValue::Int(i) => format!("i:{i}"),
        PropertyValue::Float(f) => format!("f:{:016x}", f.to_bits()),
        PropertyValue::String(s) => {
            if s.len() > 64 {
                format!(
                    "s:len{}:h{:016x}",
                    s.len(),
                    crate::prng::fnv_bytes(0xcbf29ce484222325, s.as_bytes())
                )
            } else {
                format!("s:{s:?}")
            }
        }
        PropertyValue::DateTime(i) => format!("dt:{i}"),
        PropertyValue::Blob(b) => format!(
            "blob:len{}:h{:016x}",
            b.len(),
            crate::prng::fnv_bytes(0xcbf29ce484222325, b)
        ),
        PropertyValue::List(l) => {
            let inner: Vec<String> = l.iter().map(canon).collect();
            format!("[{}]", inner.join(","))
        }
        PropertyValue::Map(m) => {
            let inner: Vec<String> = m.iter().map(|(k, v)| format!("{k:?}={}", canon(v))).collect();
            format!("{{{}}}", inner.join(","))
        }
    }
}

#[derive(Clone, Debug, Default, PartialEq, Eq, Serialize, Deserialize)]
pub struct NodeState {
    pub ext: u64,
    pub labels: BTreeSet<String>,
    pub props: BTreeMap<String, String>,
}

#[derive(Clone, Debug, Default, PartialEq, Eq, Serialize, Deserialize)]
pub struct EdgeState {
    pub count: u32,
    pub props: BTreeMap<String, String>,
}

pub type EdgeK = (u32, String, u32);

/// Observable logical content of a database (what `dump` reads back).
#[derive(Clone, Debug, Default, PartialEq, Eq)]
pub struct GraphState {
    pub nodes: BTreeMap<u32, NodeState>,
    pub edges: BTreeMap<EdgeK, EdgeState>,
}

impl GraphState {
    pub fn digest(&self) -> u64 {
        let mut h = 0xcbf29ce484222325u64;
        for (id, n) in &self.nodes {
            h = crate::prng::fnv_bytes(h, format!("n{id}:{}:{:?}:{:?};", n.ext, n.labels, n.props).as_bytes());
        }
        for (k, e) in &self.edges {
            h = crate::prng::fnv_bytes(h, format!("e{k:?}:{}:{:?};", e.count, e.props).as_bytes());
        }
        h
    }

    pub fn summary(&self) -> String {
        let ne: u32 = self.edges.values().map(|e| e.count).sum();
        format!("{} nodes, {} edges", self.nodes.len(), ne)
    }

    /// Differences `self` (observed) vs `want` (expected) as (class, detail).
    pub fn diff(&self, want: &GraphState) -> Vec<(String, String)> {
        let mut out = Vec::new();
        for (id, w) in &want.nodes {
            match self.nodes.get(id) {
                None => out.push(("node_missing".into(), format!("node {id} (ext {}) missing", w.ext))),
                Some(g) => {
                    if g.ext != w.ext {
                        out.push(("ext_diff".into(), format!("node {id}: ext {} want {}", g.ext, w.ext)));
                    }
                    if g.labels != w.labels {
                        let cls = if g.labels.is_subset(&w.labels) {
                            "label_missing"
                        } else if w.labels.is_subset(&g.labels) {
                            "label_extra"
                        } else {
                            "label_diff"
                        };
                        out.push((cls.into(), format!("node {id}: labels {:?} want {:?}", g.labels, w.labels)));
                    }
                    prop_diff("node", &format!("node {id}"), &g.props, &w.props, &mut out);
                }
            }
        }
        for (id, g) in &self.nodes {
            if !want.nodes.contains_key(id) {
                out.push(("node_extra".into(), format!("node {id} (ext {}) should not exist", g.ext)));
            }
        }
        for (k, w) in &want.edges {
            match self.edges.get(k) {
                None => out.push(("edge_missing".into(), format!("edge {k:?} x{} missing", w.count))),
                Some(g) => {
                    if g.count != w.count {
                        out.push(("edge_count".into(), format!("edge {k:?}: count {} want {}", g.count, w.count)));
                    }
                    prop_diff("edge", &format!("edge {k:?}"), &g.props, &w.props, &mut out);
                }
            }
        }
        for (k, g) in &self.edges {
            if !want.edges.contains_key(k) {
                out.push(("edge_extra".into(), format!("edge {k:?} x{} should not exist", g.count)));
            }
        }
        out
    }
}

fn prop_diff(
    kind: &str,
    what: &str,
    got: &BTreeMap<String, String>,
    want: &BTreeMap<String, String>,
    out: &mut Vec<(String, String)>,
) {
    for (k, w) in want {
        match got.get(k) {
            None => out.push((format!("{kind}_prop_missing"), format!("{what}: {k} missing, want {w}"))),
            Some(g) if g != w => out.push((format!("{kind}_prop_stale"), format!("{what}: {k}={g} want {w}"))),
            _ => {}
        }
    }
    for (k, g) in got {
        if !want.contains_key(k) {
            out.push((format!("{kind}_prop_extra"), format!("{what}: {k}={g} should be absent")));
        }
    }
}

/// Operations inside one write transaction (node references are internal ids,
/// which the model predicts because they are dense).
#[derive(Clone, Debug, Serialize, Deserialize, PartialEq)]
pub enum TOp {
    CreateNode { ext: u64, labels: Vec<String> },
    AddLabel { node: u32, label: String },
    RemoveLabel { node: u32, label: String },
    CreateEdge { src: u32, rel: String, dst: u32 },
    DelEdge { src: u32, rel: String, dst: u32 },
    /// tombstone_node only; incident edges must have been deleted explicitly
    /// by preceding DelEdge ops unless they all come from earlier transactions.
    DelNode { node: u32 },
    SetNodeProp { node: u32, key: String, val: Val },
    RemoveNodeProp { node: u32, key: String },
    SetEdgeProp { src: u32, rel: String, dst: u32, key: String, val: Val },
    RemoveEdgeProp { src: u32, rel: String, dst: u32, key: String },
    SetVector { node: u32, vec: Vec<f32> },
}

#[derive(Clone, Debug, Serialize, Deserialize, PartialEq)]
pub enum Op {
    /// begin_write, ops, then commit (or drop without commit)
    Txn { ops: Vec<TOp>, commit: bool },
    /// begin_write, ops, one property value above the log-record limit on `target`, commit:
    /// the commit must fail and leave no trace
    FailingTxn { ops: Vec<TOp>, target: u32 },
    Compact,
    CreateIndex { label: String, prop: String },
    /// close() (checkpoint-on-close) and open again
    CloseReopen,
    /// drop the handle without close and open again
    DropReopen,
    /// close, vacuum the files, open again
    Vacuum,
}

impl Op {
    pub fn kind(&self) -> &'static str {
        match self {
            Op::Txn { commit: true, .. } => "txn",
            Op::Txn { commit: false, .. } => "abandon",
            Op::FailingTxn { .. } => "failed_commit",
            Op::Compact => "compact",
            Op::CreateIndex { .. } => "create_index",
            Op::CloseReopen => "close_reopen",
            Op::DropReopen => "drop_reopen",
            Op::Vacuum => "vacuum",
        }
    }
}

impl TOp {
    pub fn kind(&self) -> &'static str {
        match self {
            TOp::CreateNode { .. } => "create_node",
            TOp::AddLabel { .. } => "add_label",
            TOp::RemoveLabel { .. } => "remove_label",
            TOp::CreateEdge { .. } => "create_edge",
            TOp::DelEdge { .. } => "del_edge",
            TOp::DelNode { .. } => "del_node",
            TOp::SetNodeProp { .. } => "set_node_prop",
            TOp::RemoveNodeProp { .. } => "remove_node_prop",
            TOp::SetEdgeProp { .. } => "set_edge_prop",
            TOp::RemoveEdgeProp { .. } => "remove_edge_prop",
            TOp::SetVector { .. } => "set_vector",
        }
    }
}

#[derive(Clone, Debug, Default)]
pub struct Model {
    pub g: GraphState,
    pub next_iid: u32,
    pub dead: BTreeSet<u32>,
    /// edge keys that were deleted while carrying properties: never re-created
    /// (the storage API leaves open whether the properties come back)
    pub tainted_edges: BTreeSet<EdgeK>,
    pub indexes: BTreeSet<(String, String)>,
    pub vectors: BTreeMap<u32, Vec<f32>>,
    /// raw values (for index-lookup oracles), node -> key -> Val
    pub node_vals: BTreeMap<u32, BTreeMap<String, Val>>,
    /// number of committed transactions folded in
    pub commits: u64,
    /// largest external id ever handed out (ids of deleted nodes stay reserved)
    pub max_ext: u64,
}

impl Model {
    pub fn apply(&mut self, op: &TOp) {
        match op {
            TOp::CreateNode { ext, labels } => {
                let id = self.next_iid;
                self.next_iid += 1;
                self.max_ext = self.max_ext.max(*ext);
                self.g.nodes.insert(
                    id,
                    NodeState {
                        ext: *ext,
                        labels: labels.iter().cloned().collect(),
                        props: BTreeMap::new(),
                    },
                );
            }
            TOp::AddLabel { node, label } => {
                if let Some(n) = self.g.nodes.get_mut(node) {
                    n.labels.insert(label.clone());
                }
            }
            TOp::RemoveLabel { node, label } => {
                if let Some(n) = self.g.nodes.get_mut(node) {
                    n.labels.remove(label);
                }
            }
            TOp::CreateEdge { src, rel, dst } => {
                self.g
                    .edges
                    .entry((*src, rel.clone(), *dst))
                    .or_default()
                    .count += 1;
            }
            TOp::DelEdge { src, rel, dst } => {
                let k = (*src, rel.clone(), *dst);
                if let Some(e) = self.g.edges.remove(&k)
                    && !e.props.is_empty()
                {
                    self.tainted_edges.insert(k);
                }
            }
            TOp::DelNode { node } => {
                self.g.nodes.remove(node);
                self.dead.insert(*node);
                self.vectors.remove(node);
                self.node_vals.remove(node);
                let ks: Vec<EdgeK> = self
                    .g
                    .edges
                    .keys()
                    .filter(|k| k.0 == *node || k.2 == *node)
                    .cloned()
                    .collect();
                for k in ks {
                    self.g.edges.remove(&k);
                }
            }
            TOp::SetNodeProp { node, key, val } => {
                if let Some(n) = self.g.nodes.get_mut(node) {
                    n.props.insert(key.clone(), val.canon());
                    self.node_vals
                        .entry(*node)
                        .or_default()
                        .insert(key.clone(), val.clone());
                }
            }
            TOp::RemoveNodeProp { node, key } => {
                if let Some(n) = self.g.nodes.get_mut(node) {
                    n.props.remove(key);
                    if let Some(m) = self.node_vals.get_mut(node) {
                        m.remove(key);
                    }
                }
            }
            TOp::SetEdgeProp { src, rel, dst, key, val } => {
                if let Some(e) = self.g.edges.get_mut(&(*src, rel.clone(), *dst)) {
                    e.props.insert(key.clone(), val.canon());
                }
            }
            TOp::RemoveEdgeProp { src, rel, dst, key } => {
                if let Some(e) = self.g.edges.get_mut(&(*src, rel.clone(), *dst)) {
                    e.props.remove(key);
                }
            }
            TOp::SetVector { node, vec } => {
                if self.g.nodes.contains_key(node) {
                    self.vectors.insert(*node, vec.clone());
                }
            }
        }
    }

    pub fn incident(&self, node: u32) -> Vec<EdgeK> {
        self.g
            .edges
            .keys()
            .filter(|k| k.0 == node || k.2 == node)
            .cloned()
            .collect()
    }
}
