//! Thin safe wrapper over the `extern "C"` functions of nervusdb-capi (the same
//! entry points the Python and Node bindings call), linked into this binary.

use ndb_capi as c;
use std::ffi::{CStr, CString};
use std::os::raw::c_char;

pub struct CDb(pub *mut c::ndb_db_t);
unsafe impl Send for CDb {}
unsafe impl Sync for CDb {}

pub struct CTxn(pub *mut c::ndb_txn_t);
unsafe impl Send for CTxn {}

#[derive(Debug, Clone)]
pub struct CErr {
    pub code: i32,
    pub category: i32,
    pub message: String,
}

pub fn last_error() -> CErr {
    let mut buf = vec![0u8; 2048];
    let n = c::ndb_last_error_message(buf.as_mut_ptr() as *mut c_char, buf.len());
    let msg = String::from_utf8_lossy(&buf[..n.min(buf.len())]).trim_end_matches('\0').to_string();
    CErr { code: c::ndb_last_error_code(), category: c::ndb_last_error_category(), message: msg }
}

fn cs(s: &str) -> CString {
    CString::new(s.replace('\0', "")).unwrap()
}

impl CDb {
    pub fn open(path: &std::path::Path) -> Result<CDb, CErr> {
        let p = cs(&path.to_string_lossy());
        let mut out: *mut c::ndb_db_t = std::ptr::null_mut();
        let rc = c::ndb_open(p.as_ptr(), &mut out);
        if rc == c::NDB_OK { Ok(CDb(out)) } else { Err(last_error()) }
    }

    pub fn exec_write(&self, cypher: &str) -> Result<u32, CErr> {
        let q = cs(cypher);
        let mut n: u32 = 0;
        let rc = c::ndb_execute_write(self.0, q.as_ptr(), std::ptr::null(), &mut n);
        if rc == c::NDB_OK { Ok(n) } else { Err(last_error()) }
    }

    pub fn query(&self, cypher: &str) -> Result<serde_json::Value, CErr> {
        let q = cs(cypher);
        let mut res: *mut c::ndb_result_t = std::ptr::null_mut();
        let rc = c::ndb_query(self.0, q.as_ptr(), std::ptr::null(), &mut res);
        if rc != c::NDB_OK {
            return Err(last_error());
        }
        let mut js: *mut c_char = std::ptr::null_mut();
        let rc2 = c::ndb_result_to_json(res, &mut js);
        let out = if rc2 == c::NDB_OK {
            let s = unsafe { CStr::from_ptr(js) }.to_string_lossy().into_owned();
            c::ndb_string_free(js);
            serde_json::from_str(&s).map_err(|e| CErr { code: -1, category: 0, message: format!("bad json: {e}") })
        } else {
            Err(last_error())
        };
        c::ndb_result_free(res);
        out
    }

    pub fn begin(&self) -> Result<CTxn, CErr> {
        let mut t: *mut c::ndb_txn_t = std::ptr::null_mut();
        let rc = c::ndb_begin_write(self.0, &mut t);
        if rc == c::NDB_OK { Ok(CTxn(t)) } else { Err(last_error()) }
    }

    pub fn compact(&self) -> Result<(), CErr> {
        if c::ndb_compact(self.0) == c::NDB_OK { Ok(()) } else { Err(last_error()) }
    }

    pub fn create_index(&self, label: &str, prop: &str) -> Result<(), CErr> {
        let (l, p) = (cs(label), cs(prop));
        if c::ndb_create_index(self.0, l.as_ptr(), p.as_ptr()) == c::NDB_OK { Ok(()) } else { Err(last_error()) }
    }

    pub fn close(self) -> Result<(), CErr> {
        let p = self.0;
        std::mem::forget(self);
        if c::ndb_close(p) == c::NDB_OK { Ok(()) } else { Err(last_error()) }
    }
}

impl Drop for CDb {
    fn drop(&mut self) {
        if !self.0.is_null() {
            let _ = c::ndb_close(self.0);
        }
    }
}

impl CTxn {
    pub fn query(&self, cypher: &str) -> Result<(), CErr> {
        let q = cs(cypher);
        if c::ndb_txn_query(self.0, q.as_ptr(), std::ptr::null()) == c::NDB_OK { Ok(()) } else { Err(last_error()) }
    }
    pub fn commit(self) -> Result<(), CErr> {
        let p = self.0;
        std::mem::forget(self);
        if c::ndb_txn_commit(p) == c::NDB_OK { Ok(()) } else { Err(last_error()) }
    }
    pub fn rollback(self) -> Result<(), CErr> {
        let p = self.0;
        std::mem::forget(self);
        if c::ndb_txn_rollback(p) == c::NDB_OK { Ok(()) } else { Err(last_error()) }
    }
}

impl Drop for CTxn {
    fn drop(&mut self) {
        if !self.0.is_null() {
            let _ = c::ndb_txn_rollback(self.0);
        }
    }
}
