//! SimDisk: journal of every mutating file operation, offline construction of
//! crash images (process death / power loss), injected I/O errors.
//!
//! Bytes live in real files on tmpfs; what is simulated is *what survives*.

use crate::prng::Rng;
use ndb_api::verif::{IoOp, IoVerdict};
use std::collections::{BTreeMap, BTreeSet};
use std::io::ErrorKind;
use std::path::{Path, PathBuf};

#[derive(Clone, Debug, PartialEq)]
pub enum Marker {
    Begin(usize),
    Ack(usize),
    Fail(usize),
}

#[derive(Clone, Debug)]
pub enum JOp {
    /// pre-existing file adopted as durable baseline
    Adopt { ino: u32, name: String, data: Vec<u8> },
    AdoptDir { name: String },
    Create { ino: u32, name: String },
    Write { ino: u32, off: u64, data: Vec<u8> },
    SetLen { ino: u32, len: u64 },
    Sync { ino: u32 },
    Rename { from: String, to: String },
    Remove { name: String },
    Mkdir { name: String },
    Mark(Marker),
}

impl JOp {
    pub fn is_io(&self) -> bool {
        !matches!(self, JOp::Mark(_) | JOp::Adopt { .. } | JOp::AdoptDir { .. })
    }
    pub fn kind(&self) -> &'static str {
        match self {
            JOp::Adopt { .. } | JOp::AdoptDir { .. } => "adopt",
            JOp::Create { .. } => "create",
            JOp::Write { .. } => "write",
            JOp::SetLen { .. } => "set_len",
            JOp::Sync { .. } => "sync",
            JOp::Rename { .. } => "rename",
            JOp::Remove { .. } => "remove",
            JOp::Mkdir { .. } => "mkdir",
            JOp::Mark(_) => "mark",
        }
    }
}

#[derive(Clone, Copy, Debug, PartialEq, Eq, serde::Serialize, serde::Deserialize)]
pub enum FaultKind {
    /// the operation fails with EIO and has no effect
    Eio,
    /// ENOSPC, no effect (set_len / write)
    Enospc,
    /// writes: first 4096-aligned part is written, then EIO
    PartialEio,
}

#[derive(Clone, Copy, Debug, PartialEq, Eq, serde::Serialize, serde::Deserialize)]
pub struct FaultPlan {
    /// I/O step number (0-based count of `io()` calls) at which the fault fires
    pub step: u64,
    pub kind: FaultKind,
}

#[derive(Debug, Default)]
pub struct DiskInner {
    pub root: PathBuf,
    pub journal: Vec<JOp>,
    names: BTreeMap<String, u32>,
    handles: Vec<u32>,
    next_ino: u32,
    pub steps: u64,
    pub fault: Option<FaultPlan>,
    pub fault_fired: Option<(u64, &'static str)>,
    /// file extension ("wal", "ndb", ...) of the operation the fault hit
    pub fault_file: String,
    uuid_names: Vec<String>,
    pub unknown_paths: Vec<String>,
}

fn is_uuid(s: &str) -> bool {
    s.len() == 36
        && s.bytes().enumerate().all(|(i, b)| {
            if matches!(i, 8 | 13 | 18 | 23) {
                b == b'-'
            } else {
                b.is_ascii_hexdigit()
            }
        })
}

impl DiskInner {
    pub fn new(root: &Path) -> Self {
        let mut d = DiskInner {
            root: root.to_path_buf(),
            ..Default::default()
        };
        d.adopt_dir(root, "");
        d
    }

    fn adopt_dir(&mut self, dir: &Path, prefix: &str) {
        let mut entries: Vec<_> = match std::fs::read_dir(dir) {
            Ok(rd) => rd.filter_map(|e| e.ok()).collect(),
            Err(_) => return,
        };
        entries.sort_by_key(|e| e.file_name());
        for e in entries {
            let fname = e.file_name().to_string_lossy().into_owned();
            let rel = if prefix.is_empty() { fname.clone() } else { format!("{prefix}/{fname}") };
            let p = e.path();
            if p.is_dir() {
                self.journal.push(JOp::AdoptDir { name: rel.clone() });
                self.adopt_dir(&p, &rel);
            } else {
                let data = std::fs::read(&p).unwrap_or_default();
                let ino = self.next_ino;
                self.next_ino += 1;
                self.names.insert(rel.clone(), ino);
                self.journal.push(JOp::Adopt { ino, name: rel, data });
            }
        }
    }

    /// relative, canonical name of a path under the root (pid / nonce / uuid free)
    fn rel(&mut self, p: &Path) -> Option<String> {
        let r = p.strip_prefix(&self.root).ok()?;
        let mut comps: Vec<String> = Vec::new();
        for c in r.components() {
            let s = c.as_os_str().to_string_lossy().into_owned();
            if is_uuid(&s) {
                let idx = match self.uuid_names.iter().position(|u| *u == s) {
                    Some(i) => i,
                    None => {
                        self.uuid_names.push(s.clone());
                        self.uuid_names.len() - 1
                    }
                };
                comps.push(format!("UUID{idx}"));
                continue;
            }
            // x.wal.tmp.<pid>.<txid> / x.ndb.vacuum.tmp.<pid>.<nonce> / x.ndb.bak.<pid>.<nonce>
            let segs: Vec<&str> = s.split('.').collect();
            let mut out: Vec<String> = Vec::new();
            let mut after = 0; // numeric segments seen after tmp/bak
            let mut seen_tmp = false;
            let vac = s.contains("vacuum") || s.contains(".bak.");
            for seg in segs {
                if seen_tmp && !seg.is_empty() && seg.bytes().all(|b| b.is_ascii_digit()) {
                    after += 1;
                    if after == 1 {
                        out.push("P".into());
                    } else if vac {
                        out.push("N".into());
                    } else {
                        out.push(seg.into());
                    }
                    continue;
                }
                if seg == "tmp" || seg == "bak" {
                    seen_tmp = true;
                }
                out.push(seg.into());
            }
            comps.push(out.join("."));
        }
        Some(comps.join("/"))
    }

    pub fn mark(&mut self, m: Marker) {
        self.journal.push(JOp::Mark(m));
    }

    pub fn file_opened(&mut self, path: &Path) -> u64 {
        let Some(name) = self.rel(path) else { return 0 };
        let ino = match self.names.get(&name) {
            Some(i) => *i,
            None => {
                // a file we never saw being created: harness error surfaced by self-check
                self.unknown_paths.push(name.clone());
                let ino = self.next_ino;
                self.next_ino += 1;
                self.names.insert(name, ino);
                ino
            }
        };
        self.handles.push(ino);
        self.handles.len() as u64 // handle ids start at 1
    }

    fn ino_of(&self, handle: u64) -> Option<u32> {
        if handle == 0 {
            return None;
        }
        self.handles.get(handle as usize - 1).copied()
    }

    pub fn io(&mut self, op: &IoOp<'_>) -> IoVerdict {
        // operations outside the sandbox are not simulated
        let in_root = match op {
            IoOp::Create { path }
            | IoOp::Remove { path }
            | IoOp::Mkdir { path }
            | IoOp::Write { path, .. }
            | IoOp::SetLen { path, .. }
            | IoOp::Sync { path, .. } => path.starts_with(&self.root),
            IoOp::Rename { from, .. } => from.starts_with(&self.root),
        };
        if !in_root {
            return IoVerdict::Proceed;
        }
        let step = self.steps;
        self.steps += 1;
        let mut verdict = IoVerdict::Proceed;
        if let Some(f) = self.fault
            && f.step == step
            && self.fault_fired.is_none()
        {
            let kind_name;
            verdict = match (op, f.kind) {
                (IoOp::Write { data, .. }, FaultKind::PartialEio) => {
                    kind_name = "err_write_partial";
                    let n = (data.len() / 2) & !4095usize;
                    IoVerdict::Partial(n, ErrorKind::Other)
                }
                (IoOp::Write { .. }, FaultKind::Enospc) => {
                    kind_name = "err_write_enospc";
                    IoVerdict::Fail(ErrorKind::StorageFull)
                }
                (IoOp::Write { .. }, _) => {
                    kind_name = "err_write";
                    IoVerdict::Fail(ErrorKind::Other)
                }
                (IoOp::SetLen { .. }, _) => {
                    kind_name = "err_setlen";
                    IoVerdict::Fail(ErrorKind::StorageFull)
                }
                (IoOp::Sync { .. }, _) => {
                    kind_name = "err_fsync";
                    IoVerdict::Fail(ErrorKind::Other)
                }
                (IoOp::Create { .. }, _) => {
                    kind_name = "err_create";
                    IoVerdict::Fail(ErrorKind::Other)
                }
                (IoOp::Rename { .. }, _) => {
                    kind_name = "err_rename";
                    IoVerdict::Fail(ErrorKind::Other)
                }
                (IoOp::Remove { .. }, _) => {
                    kind_name = "err_remove";
                    IoVerdict::Fail(ErrorKind::Other)
                }
                (IoOp::Mkdir { .. }, _) => {
                    kind_name = "err_mkdir";
                    IoVerdict::Fail(ErrorKind::Other)
                }
            };
            self.fault_fired = Some((step, kind_name));
            let p = match op {
                IoOp::Create { path }
                | IoOp::Remove { path }
                | IoOp::Mkdir { path }
                | IoOp::Write { path, .. }
                | IoOp::SetLen { path, .. }
                | IoOp::Sync { path, .. } => *path,
                IoOp::Rename { from, .. } => *from,
            };
            self.fault_file = p.extension().map(|e| e.to_string_lossy().into_owned()).unwrap_or_default();
        }
        // journal what will actually happen
        match (op, verdict) {
            (_, IoVerdict::Fail(_)) => {}
            (IoOp::Create { path }, _) => {
                if let Some(name) = self.rel(path) {
                    let ino = self.next_ino;
                    self.next_ino += 1;
                    self.names.insert(name.clone(), ino);
                    self.journal.push(JOp::Create { ino, name });
                }
            }
            (IoOp::Write { file, offset, data, .. }, v) => {
                if let Some(ino) = self.ino_of(*file) {
                    let n = match v {
                        IoVerdict::Partial(n, _) => n.min(data.len()),
                        _ => data.len(),
                    };
                    if n > 0 {
                        self.journal.push(JOp::Write { ino, off: *offset, data: data[..n].to_vec() });
                    }
                }
            }
            (IoOp::SetLen { file, len, .. }, _) => {
                if let Some(ino) = self.ino_of(*file) {
                    self.journal.push(JOp::SetLen { ino, len: *len });
                }
            }
            (IoOp::Sync { file, .. }, _) => {
                if let Some(ino) = self.ino_of(*file) {
                    self.journal.push(JOp::Sync { ino });
                }
            }
            (IoOp::Rename { from, to }, _) => {
                if let (Some(f), Some(t)) = (self.rel(from), self.rel(to)) {
                    if let Some(ino) = self.names.remove(&f) {
                        self.names.insert(t.clone(), ino);
                    }
                    self.journal.push(JOp::Rename { from: f, to: t });
                }
            }
            (IoOp::Remove { path }, _) => {
                if let Some(n) = self.rel(path) {
                    self.names.remove(&n);
                    self.journal.push(JOp::Remove { name: n });
                }
            }
            (IoOp::Mkdir { path }, _) => {
                if let Some(n) = self.rel(path) {
                    self.journal.push(JOp::Mkdir { name: n });
                }
            }
        }
        verdict
    }
}

/// Contents of a simulated directory tree.
#[derive(Clone, Debug, Default, PartialEq, Eq)]
pub struct FsImage {
    pub files: BTreeMap<String, Vec<u8>>,
    pub dirs: BTreeSet<String>,
}

impl FsImage {
    pub fn write_to(&self, dir: &Path) -> std::io::Result<()> {
        std::fs::create_dir_all(dir)?;
        for d in &self.dirs {
            std::fs::create_dir_all(dir.join(d))?;
        }
        for (name, data) in &self.files {
            let p = dir.join(name);
            if let Some(parent) = p.parent() {
                std::fs::create_dir_all(parent)?;
            }
            std::fs::write(p, data)?;
        }
        Ok(())
    }

    pub fn read_from(dir: &Path) -> FsImage {
        fn walk(base: &Path, dir: &Path, img: &mut FsImage) {
            let Ok(rd) = std::fs::read_dir(dir) else { return };
            for e in rd.filter_map(|e| e.ok()) {
                let p = e.path();
                let rel = p.strip_prefix(base).unwrap().to_string_lossy().into_owned();
                if p.is_dir() {
                    img.dirs.insert(rel);
                    walk(base, &p, img);
                } else {
                    img.files.insert(rel, std::fs::read(&p).unwrap_or_default());
                }
            }
        }
        let mut img = FsImage::default();
        walk(dir, dir, &mut img);
        img
    }

    pub fn hash(&self) -> u64 {
        let mut h = 0xcbf29ce484222325u64;
        for (n, d) in &self.files {
            h = crate::prng::fnv_bytes(h, n.as_bytes());
            h = crate::prng::fnv_bytes(h, &(d.len() as u64).to_le_bytes());
            h = crate::prng::fnv_bytes(h, d);
        }
        h
    }
}

fn apply_write(buf: &mut Vec<u8>, off: u64, data: &[u8]) {
    let off = off as usize;
    if buf.len() < off + data.len() {
        buf.resize(off + data.len(), 0);
    }
    buf[off..off + data.len()].copy_from_slice(data);
}

#[derive(Clone, Copy, Debug, PartialEq, Eq, serde::Serialize, serde::Deserialize)]
pub enum PowerChoice {
    /// every file at its last synced content; directory entries persist
    DropAll,
    /// everything persisted except the last pending write
    DropLast,
    /// everything persisted, the last pending write torn to a subset of its 512-byte sectors
    TearLast(u64),
    /// every pending op independently kept / dropped / torn; pending dir ops: random prefix kept
    Random(u64),
}

/// Walks the journal and can produce the crash image for "crash before journal[pos]".
#[derive(Clone, Debug, Default)]
pub struct Replayer {
    pub pos: usize,
    names: BTreeMap<String, u32>,
    dirs: BTreeSet<String>,
    files: BTreeMap<u32, Vec<u8>>,
    // power-loss view
    durable_files: BTreeMap<u32, Vec<u8>>,
    pending: BTreeMap<u32, Vec<usize>>,
    durable_names: BTreeMap<String, u32>,
    durable_dirs: BTreeSet<String>,
    pending_dir_ops: Vec<usize>,
}

impl Replayer {
    pub fn new() -> Self {
        Self::default()
    }

    fn apply_dir_op(names: &mut BTreeMap<String, u32>, dirs: &mut BTreeSet<String>, op: &JOp) {
        match op {
            JOp::Create { ino, name } => {
                names.insert(name.clone(), *ino);
            }
            JOp::Rename { from, to } => {
                if let Some(i) = names.remove(from) {
                    names.insert(to.clone(), i);
                }
            }
            JOp::Remove { name } => {
                names.remove(name);
            }
            JOp::Mkdir { name } => {
                dirs.insert(name.clone());
            }
            _ => {}
        }
    }

    /// apply journal[pos] and advance
    pub fn step(&mut self, journal: &[JOp]) {
        let idx = self.pos;
        let op = &journal[idx];
        self.pos += 1;
        match op {
            JOp::Adopt { ino, name, data } => {
                self.names.insert(name.clone(), *ino);
                self.files.insert(*ino, data.clone());
                self.durable_names.insert(name.clone(), *ino);
                self.durable_files.insert(*ino, data.clone());
            }
            JOp::AdoptDir { name } => {
                self.dirs.insert(name.clone());
                self.durable_dirs.insert(name.clone());
            }
            JOp::Create { ino, .. } => {
                self.files.insert(*ino, Vec::new());
                Self::apply_dir_op(&mut self.names, &mut self.dirs, op);
                self.pending_dir_ops.push(idx);
            }
            JOp::Rename { .. } | JOp::Remove { .. } | JOp::Mkdir { .. } => {
                Self::apply_dir_op(&mut self.names, &mut self.dirs, op);
                self.pending_dir_ops.push(idx);
            }
            JOp::Write { ino, off, data } => {
                apply_write(self.files.entry(*ino).or_default(), *off, data);
                self.pending.entry(*ino).or_default().push(idx);
            }
            JOp::SetLen { ino, len } => {
                self.files.entry(*ino).or_default().resize(*len as usize, 0);
                self.pending.entry(*ino).or_default().push(idx);
            }
            JOp::Sync { ino } => {
                let cur = self.files.get(ino).cloned().unwrap_or_default();
                self.durable_files.insert(*ino, cur);
                self.pending.remove(ino);
                // ordered metadata journal: a completed sync makes earlier directory ops durable
                for i in std::mem::take(&mut self.pending_dir_ops) {
                    Self::apply_dir_op(&mut self.durable_names, &mut self.durable_dirs, &journal[i]);
                }
            }
            JOp::Mark(_) => {}
        }
    }

    pub fn run_to(&mut self, journal: &[JOp], pos: usize) {
        while self.pos < pos {
            self.step(journal);
        }
    }

    /// Process death before journal[pos]: everything issued so far is in the files.
    /// `cut`: if journal[pos] is a write, additionally apply its first `cut` bytes.
    pub fn image_process_death(&self, journal: &[JOp], cut: usize) -> FsImage {
        let mut img = FsImage { files: BTreeMap::new(), dirs: self.dirs.clone() };
        for (name, ino) in &self.names {
            img.files.insert(name.clone(), self.files.get(ino).cloned().unwrap_or_default());
        }
        if cut > 0
            && let Some(JOp::Write { ino, off, data }) = journal.get(self.pos)
        {
            let n = cut.min(data.len());
            for (name, i) in &self.names {
                if i == ino {
                    apply_write(img.files.get_mut(name).unwrap(), *off, &data[..n]);
                }
            }
        }
        img
    }

    pub fn pending_write_count(&self) -> usize {
        self.pending.values().map(|v| v.len()).sum()
    }

    pub fn pending_dir_count(&self) -> usize {
        self.pending_dir_ops.len()
    }

    /// Power loss before journal[pos].
    pub fn image_power_loss(&self, journal: &[JOp], choice: PowerChoice) -> FsImage {
        let mut names = self.durable_names.clone();
        let mut dirs = self.durable_dirs.clone();
        let mut rng = match choice {
            PowerChoice::TearLast(s) | PowerChoice::Random(s) => Rng::new(s, "images"),
            _ => Rng::new(0, "images"),
        };
        // directory operations: lost as a suffix
        let keep_dir = match choice {
            // the property's power-loss model: synced bytes and (all) directory entries persist
            PowerChoice::DropAll | PowerChoice::DropLast | PowerChoice::TearLast(_) => self.pending_dir_ops.len(),
            PowerChoice::Random(_) => rng.usize_below(self.pending_dir_ops.len() + 1),
        };
        for i in &self.pending_dir_ops[..keep_dir] {
            Self::apply_dir_op(&mut names, &mut dirs, &journal[*i]);
        }
        let last_pending: Option<usize> = self
            .pending
            .values()
            .flat_map(|v| v.iter().copied())
            .filter(|i| matches!(journal[*i], JOp::Write { .. }))
            .max();
        let mut img = FsImage { files: BTreeMap::new(), dirs };
        for (name, ino) in &names {
            let mut buf = self.durable_files.get(ino).cloned().unwrap_or_default();
            if let Some(p) = self.pending.get(ino) {
                for &i in p {
                    let (keep, tear) = match choice {
                        PowerChoice::DropAll => (false, false),
                        PowerChoice::DropLast => (Some(i) != last_pending, false),
                        PowerChoice::TearLast(_) => (true, Some(i) == last_pending),
                        PowerChoice::Random(_) => (rng.chance(0.5), rng.chance(0.25)),
                    };
                    if !keep {
                        continue;
                    }
                    match &journal[i] {
                        JOp::Write { off, data, .. } => {
                            if tear && data.len() > 512 {
                                // ensure the file is long enough, then persist a subset of sectors
                                if buf.len() < *off as usize + data.len() {
                                    buf.resize(*off as usize + data.len(), 0);
                                }
                                let nsec = data.len().div_ceil(512);
                                for s in 0..nsec {
                                    if rng.chance(0.5) {
                                        let a = s * 512;
                                        let b = ((s + 1) * 512).min(data.len());
                                        apply_write(&mut buf, off + a as u64, &data[a..b]);
                                    }
                                }
                            } else if tear {
                                let n = rng.usize_below(data.len() + 1);
                                apply_write(&mut buf, *off, &data[..n]);
                            } else {
                                apply_write(&mut buf, *off, data);
                            }
                        }
                        JOp::SetLen { len, .. } => buf.resize(*len as usize, 0),
                        _ => {}
                    }
                }
            }
            img.files.insert(name.clone(), buf);
        }
        img
    }
}
