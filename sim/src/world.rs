//! The simulated world: one object implementing every seam (`SimHooks`).

use crate::disk::{DiskInner, FaultPlan, JOp, Marker};
use crate::prng::Rng;
use crate::sched::Sched;
use ndb_api::verif::{IoOp, IoVerdict, PageEvent, SimHooks, SyncKind};
use std::collections::BTreeMap;
use std::path::Path;
use std::sync::{Arc, Mutex};

#[derive(Clone, Copy, Debug, PartialEq, Eq, serde::Serialize, serde::Deserialize)]
pub enum ClockRegime {
    /// advances by a small random delta per read
    Normal,
    /// never advances
    Stalled,
    /// coarse: multiples of 1 ms, advancing rarely
    Coarse,
    /// sometimes steps backwards
    Jumpy,
}

#[derive(Debug)]
pub struct ClockState {
    pub wall: i64,
    pub mono: u64,
    pub regime: ClockRegime,
    pub rng: Rng,
    pub wall_reads: u64,
    pub mono_reads: u64,
    pub stalls: u64,
    pub backs: u64,
    /// monotonic clock: nanoseconds added per read
    pub mono_step: u64,
    /// if set: the mono clock jumps by this much at read number `.0`
    pub mono_jump_at: Option<(u64, u64)>,
    /// watchdog: panic (caught and attributed by the check) when the system reads the
    /// monotonic clock more often than this — a loop that never stops polling the deadline
    pub mono_read_cap: Option<u64>,
}

#[derive(Debug, Default)]
pub struct PageMonitor {
    pub enabled: bool,
    pub owner: BTreeMap<u64, &'static str>,
    pub violations: Vec<String>,
    pub events: u64,
}

pub struct World {
    pub disk: Mutex<DiskInner>,
    pub clock: Mutex<ClockState>,
    pub sysrng: Mutex<Rng>,
    pub pages: Mutex<PageMonitor>,
    pub sched: Option<Arc<Sched>>,
    pub sim_clock: bool,
}

impl World {
    pub fn new(root: &Path, seed: u64) -> Arc<World> {
        Arc::new(Self::build(root, seed, None, false))
    }

    pub fn build(root: &Path, seed: u64, sched: Option<Arc<Sched>>, sim_clock: bool) -> World {
        World {
            disk: Mutex::new(DiskInner::new(root)),
            clock: Mutex::new(ClockState {
                wall: 1_700_000_000_000_000_000,
                mono: 1_000_000,
                regime: ClockRegime::Normal,
                rng: Rng::new(seed, "clock"),
                wall_reads: 0,
                mono_reads: 0,
                stalls: 0,
                backs: 0,
                mono_step: 1_000,
                mono_jump_at: None,
                mono_read_cap: None,
            }),
            sysrng: Mutex::new(Rng::new(seed, "sysrng")),
            pages: Mutex::new(PageMonitor::default()),
            sched,
            sim_clock,
        }
    }

    pub fn mark(&self, m: Marker) {
        self.disk.lock().unwrap().mark(m);
    }

    pub fn set_fault(&self, f: Option<FaultPlan>) {
        let mut d = self.disk.lock().unwrap();
        d.fault = f;
        d.fault_fired = None;
    }

    pub fn fault_fired(&self) -> Option<(u64, &'static str)> {
        self.disk.lock().unwrap().fault_fired
    }

    pub fn fault_file(&self) -> String {
        self.disk.lock().unwrap().fault_file.clone()
    }

    pub fn steps(&self) -> u64 {
        self.disk.lock().unwrap().steps
    }

    pub fn take_journal(&self) -> Vec<JOp> {
        std::mem::take(&mut self.disk.lock().unwrap().journal)
    }

    pub fn journal_clone(&self) -> Vec<JOp> {
        self.disk.lock().unwrap().journal.clone()
    }

    pub fn install(self: &Arc<Self>) -> HookGuard {
        let prev = ndb_api::verif::install(Some(self.clone() as Arc<dyn SimHooks>));
        HookGuard { prev }
    }
}

pub struct HookGuard {
    prev: Option<Arc<dyn SimHooks>>,
}

impl Drop for HookGuard {
    fn drop(&mut self) {
        ndb_api::verif::install(self.prev.take());
    }
}

impl SimHooks for World {
    fn file_opened(&self, path: &Path) -> u64 {
        self.disk.lock().unwrap().file_opened(path)
    }

    fn io(&self, op: &IoOp<'_>) -> IoVerdict {
        if let Some(s) = &self.sched {
            match op {
                IoOp::Create { .. } | IoOp::Rename { .. } | IoOp::Remove { .. } | IoOp::Mkdir { .. } => s.yield_point_rare("io_dir"),
                _ => s.yield_point("io"),
            }
        }
        self.disk.lock().unwrap().io(op)
    }

    fn sync_point(&self, kind: SyncKind, addr: usize, name: &'static str) {
        if let Some(s) = &self.sched {
            s.sync_point(kind, addr, name);
        }
    }

    fn lock_blocked(&self, kind: SyncKind, addr: usize, name: &'static str) {
        match &self.sched {
            Some(s) => s.lock_blocked(kind, addr, name),
            None => std::thread::yield_now(),
        }
    }

    fn lock_acquired(&self, kind: SyncKind, addr: usize, name: &'static str) {
        if let Some(s) = &self.sched {
            s.lock_acquired(kind, addr, name);
        }
    }

    fn lock_released(&self, kind: SyncKind, addr: usize, name: &'static str) {
        if let Some(s) = &self.sched {
            s.lock_released(kind, addr, name);
        }
    }

    fn now_unix_nanos(&self) -> Option<i64> {
        if !self.sim_clock {
            // still deterministic: a fixed clock that advances 1 µs per read
            let mut c = self.clock.lock().unwrap();
            c.wall_reads += 1;
            c.wall += 1_000;
            return Some(c.wall);
        }
        let mut c = self.clock.lock().unwrap();
        c.wall_reads += 1;
        match c.regime {
            ClockRegime::Normal => {
                let d = 1 + c.rng.below(5_000_000) as i64;
                c.wall += d;
            }
            ClockRegime::Stalled => {
                c.stalls += 1;
            }
            ClockRegime::Coarse => {
                if c.rng.chance(0.2) {
                    c.wall += 1_000_000;
                } else {
                    c.stalls += 1;
                }
                c.wall -= c.wall % 1_000_000;
            }
            ClockRegime::Jumpy => {
                let r = c.rng.below(10);
                if r < 3 {
                    let back = 1 + c.rng.below(2_000) as i64;
                    c.wall -= back;
                    c.backs += 1;
                } else if r < 5 {
                    c.stalls += 1;
                } else {
                    c.wall += 1 + c.rng.below(1_000) as i64;
                }
            }
        }
        Some(c.wall)
    }

    fn instant_nanos(&self) -> Option<u64> {
        let mut c = self.clock.lock().unwrap();
        c.mono_reads += 1;
        if let Some(cap) = c.mono_read_cap
            && c.mono_reads > cap
        {
            c.mono_read_cap = None;
            drop(c);
            panic!("sim clock read cap exceeded");
        }
        let step = c.mono_step;
        c.mono += step;
        if let Some((at, jump)) = c.mono_jump_at
            && c.mono_reads == at
        {
            c.mono += jump;
        }
        Some(c.mono)
    }

    fn rng_f64(&self) -> Option<f64> {
        Some(self.sysrng.lock().unwrap().f64())
    }

    fn page_event(&self, ev: PageEvent, page: u64, owner: &'static str) {
        let mut p = self.pages.lock().unwrap();
        if !p.enabled {
            return;
        }
        p.events += 1;
        match ev {
            PageEvent::Allocate => {
                p.owner.insert(page, owner);
            }
            PageEvent::Claim => {
                if let Some(o) = p.owner.get(&page).copied() {
                    if o != owner {
                        p.violations.push(format!(
                            "page {page} owned by {o} silently claimed by {owner}"
                        ));
                    }
                } else {
                    p.owner.insert(page, owner);
                }
            }
            PageEvent::Write => {
                if let Some(o) = p.owner.get(&page).copied()
                    && o != owner
                    && owner != "?"
                    && o != "?"
                {
                    p.violations
                        .push(format!("page {page} owned by {o} written by {owner}"));
                }
            }
            PageEvent::Free => {
                p.owner.remove(&page);
            }
        }
    }
}
