//! One integer decides everything: xoshiro256** seeded via splitmix64, split
//! into named sub-streams so a new draw in one stream never shifts another.

#[derive(Clone, Debug)]
pub struct Rng {
    s: [u64; 4],
}

fn splitmix(x: &mut u64) -> u64 {
    *x = x.wrapping_add(0x9E3779B97F4A7C15);
    let mut z = *x;
    z = (z ^ (z >> 30)).wrapping_mul(0xBF58476D1CE4E5B9);
    z = (z ^ (z >> 27)).wrapping_mul(0x94D049BB133111EB);
    z ^ (z >> 31)
}

pub fn fnv(s: &str) -> u64 {
    let mut h: u64 = 0xcbf29ce484222325;
    for b in s.bytes() {
        h ^= b as u64;
        h = h.wrapping_mul(0x100000001b3);
    }
    h
}

pub fn fnv_bytes(h0: u64, bytes: &[u8]) -> u64 {
    let mut h = h0;
    for b in bytes {
        h ^= *b as u64;
        h = h.wrapping_mul(0x100000001b3);
    }
    h
}

impl Rng {
    pub fn new(seed: u64, stream: &str) -> Self {
        let mut x = seed ^ fnv(stream).rotate_left(17);
        let s = [
            splitmix(&mut x),
            splitmix(&mut x),
            splitmix(&mut x),
            splitmix(&mut x),
        ];
        Rng { s }
    }

    pub fn derive(&mut self, stream: &str) -> Rng {
        let seed = self.next_u64();
        Rng::new(seed, stream)
    }

    pub fn next_u64(&mut self) -> u64 {
        let r = self.s[1].wrapping_mul(5).rotate_left(7).wrapping_mul(9);
        let t = self.s[1] << 17;
        self.s[2] ^= self.s[0];
        self.s[3] ^= self.s[1];
        self.s[1] ^= self.s[2];
        self.s[0] ^= self.s[3];
        self.s[2] ^= t;
        self.s[3] = self.s[3].rotate_left(45);
        r
    }

    /// uniform in 0..n (n > 0)
    pub fn below(&mut self, n: u64) -> u64 {
        debug_assert!(n > 0);
        // multiply-shift; bias negligible for simulation purposes
        ((self.next_u64() as u128 * n as u128) >> 64) as u64
    }

    pub fn range(&mut self, lo: u64, hi_incl: u64) -> u64 {
        lo + self.below(hi_incl - lo + 1)
    }

    pub fn usize_below(&mut self, n: usize) -> usize {
        self.below(n as u64) as usize
    }

    pub fn chance(&mut self, p: f64) -> bool {
        self.f64() < p
    }

    pub fn f64(&mut self) -> f64 {
        (self.next_u64() >> 11) as f64 / (1u64 << 53) as f64
    }

    pub fn pick<'a, T>(&mut self, xs: &'a [T]) -> &'a T {
        &xs[self.usize_below(xs.len())]
    }

    /// weighted pick: returns index
    pub fn weighted(&mut self, w: &[u32]) -> usize {
        let total: u64 = w.iter().map(|x| *x as u64).sum();
        if total == 0 {
            return 0;
        }
        let mut r = self.below(total);
        for (i, x) in w.iter().enumerate() {
            if r < *x as u64 {
                return i;
            }
            r -= *x as u64;
        }
        w.len() - 1
    }
}
