#!/usr/bin/env python3
"""store_seeded.py <ID> <name> <caught_by;...> : copy /tmp/seeded-<ID> into /verif/seeded/<ID>-<name>/ with a normalised meta.json"""
import json,sys,os,shutil,glob
pid,name,caught=sys.argv[1],sys.argv[2],sys.argv[3]
src=f'/tmp/seeded-{pid}'; dst=f'/verif/seeded/{pid}-{name}'; prop=pid[:3]
os.makedirs(dst,exist_ok=True)
for f in glob.glob(src+'/*'):
    b=os.path.basename(f)
    if b.endswith('.log') or b=='meta.json': continue
    shutil.copy(f,dst)
m=json.load(open(src+'/meta.json'))
out={"property":prop,
 "breaks":m.get('summary') or m.get('breaks'),
 "needs_to_manifest":m.get('needs') or m.get('needs_to_manifest'),
 "origin":"written by an independent sub-agent that saw only the property text and a scratch worktree",
 "agent_ran":m.get('ran') or m.get('agent_ran'),
 "confirmed":"confirmed by me in the agent's scratch worktree with /verif/confirm_seeded.sh: demo passes on a clean checkout, fails with patch.diff; `cargo test --workspace --no-fail-fast --offline` with the patch: only tck_harness (absent submodule, as in the baseline) fails, plus at most the baseline-flaky t341 timing test under load; then applied to /repo (git apply), checks run, undone (git checkout -- .)",
 "caught_by":[c for c in caught.split(';') if c]}
json.dump(out,open(dst+'/meta.json','w'),indent=1)
print(dst, os.listdir(dst))
