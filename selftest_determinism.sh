#!/bin/bash
# Determinism self-test: every check, several master seeds, each run twice at different
# worker counts in separate processes; the run digests (all counters, all distinct-sets,
# all violation classes, in case order) must agree. Exit 2 on divergence (harness error).
cd "$(dirname "$0")" && ./check build || exit 2
ids="${1:-$(./sim/target/release/nervus-sim list)}"; seeds="${2:-11 12 13}"
bad=0
for id in $ids; do for s in $seeds; do
  a=$(VERIF_SEED=$s VERIF_WORKERS=16 VERIF_NO_MINIMISE=1 ./sim/target/release/nervus-sim check $id quick 2>/dev/null | grep '^run_digest=')
  b=$(VERIF_SEED=$s VERIF_WORKERS=3  VERIF_NO_MINIMISE=1 ./sim/target/release/nervus-sim check $id quick 2>/dev/null | grep '^run_digest=')
  if [ "$a" != "$b" ] || [ -z "$a" ]; then echo "NONDETERMINISTIC $id seed=$s: $a vs $b"; bad=2; else echo "ok $id seed=$s $a"; fi
done; done
exit $bad
