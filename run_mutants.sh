#!/bin/bash
# ./run_mutants.sh [dir] : apply each <name>.patch (name = Mxx-<PROP>-...) to /repo's working tree,
# run the named property's quick check (plus any extra ids given in <name>.also), expect exit 1,
# restore the tree.  Prints DETECTED / MISSED per patch.
dir="${1:-/verif/mutants}"
cd /verif || exit 2
[ -z "$(git -C /repo status --porcelain --untracked-files=no)" ] || { echo "/repo has local changes; refusing"; exit 2; }
miss=0
for p in "$dir"/*.patch "$dir"/*/patch.diff; do
  [ -f "$p" ] || continue
  name=$(basename "$p" .patch); [ "$name" = "patch.diff" ] && name=$(basename "$(dirname "$p")")
  prop=$(echo "$name" | grep -o 'C[0-9][0-9]' | head -1)
  ids="$prop"; [ -f "${p%.patch}.also" ] && ids="$ids $(cat "${p%.patch}.also")"; [ -f "$(dirname "$p")/also" ] && ids="$ids $(cat "$(dirname "$p")/also")"
  if ! git -C /repo apply --check "$p" 2>/dev/null; then echo "SKIP     $name: patch does not apply"; continue; fi
  git -C /repo apply "$p"
  res="MISSED  "
  if ./check build >/dev/null 2>&1; then
    for id in $ids; do
      out=$(timeout 1500 ./check $id quick 2>&1); rc=$?
      if [ $rc -eq 1 ]; then res="DETECTED"; hit="$id: $(echo "$out" | grep -m1 'class=' | cut -c1-160)"; break; fi
      [ $rc -eq 2 ] && hit="$id: harness error: $(echo "$out" | grep -m1 HARNESS | cut -c1-120)"
    done
  else res="NOBUILD "; fi
  echo "$res $name ${hit:-}"; [ "$res" = "MISSED  " ] && miss=1; hit=""
  git -C /repo checkout -- .
done
./check build >/dev/null 2>&1
exit $miss
