#!/usr/bin/env python3
"""Writes /verif/MANIFEST.json from the table below (kept next to the checks so the
manifest never drifts from what is built)."""
import json, subprocess

NA = {
 "C11": "pure function of (graph, query text, parameters): no schedule, clock, fault or crash in the statement; needs a reference Cypher evaluator (differential testing), a different technique family",
 "C12": "pure function of (graph, statement): same reason as C11; the L2 template model drives transaction-level properties only and is not offered as evidence here",
 "C16": "input fuzzing (any text never panics) plus a real-CPU-time bound that a simulated clock cannot observe; the clock-dependent semantics of the timeout are decided under C33",
 "C19": "metamorphic law of pure evaluation (WHERE partition): nothing to simulate",
 "C20": "pure function of the input rows (ordering, SKIP/LIMIT): nothing to simulate",
 "C21": "pure function of the input groups (aggregates): nothing to simulate",
 "C22": "error propagation through operators is a pure function of the query; the one instance with a clock in it (a time-limit error swallowed by DISTINCT/UNION) is decided under C33",
 "C23": "algebraic laws of pure expression evaluation: nothing to simulate",
 "C25": "codecs are pure functions of bytes/values: nothing to simulate",
 "C26": "deterministic sequential data structure; the statement contains no fault, crash or interleaving (its behaviour under crashes and I/O errors is exercised inside C02/C08/C15)",
 "C27": "pure function (key encoding): nothing to simulate",
 "C30": "function of the input node/relationship set: nothing to simulate",
 "C34": "differential over programs between two APIs: nothing to simulate",
}

COMMON_NOTE = ("Trusted base: the simulator (/verif/sim: journal, image builder, scheduler, reference model, dump), "
  "the add-only cfg(nervusdb_verif) seams in /repo, rustc, and tmpfs for file contents. Seeded sampling, not enumeration of histories: a clean run is evidence, not proof. "
  "Strict exploration runs under the avoidance constraints of the open findings in known_findings.json that still reproduce.")

CHECKS = {
 "C01": dict(cat="fault_enumeration", tech="deterministic simulation with fault injection: crash-image enumeration (process death + power loss at every I/O step of a journaled run), multi-round",
   text="Per generated history every I/O step of the journaled fault-free run is a crash point (process death with every 4 KiB cut of the write in flight; power loss = files rolled back to their last synced image). Each distinct image is recovered by the real open and must contain every acknowledged commit; recovered databases are driven on with further commits and reopens, and a subset is journaled and crashed again (nested rounds, depth 3).", ref="§3 C01"),
 "C02": dict(cat="fault_enumeration", tech="deterministic simulation with fault injection: crash-image enumeration, committed-prefix oracle",
   text="Same images as C01 (shared engine, separate attribution): open must succeed and the dump must equal the model after the last acknowledged operation or after the operation in flight — no partial transaction, no gap, no invariant violation (dangling edge, out/in asymmetry, unresolvable label); nested rounds included.", ref="§3 C02"),
 "C03": dict(cat="exploration", tech="deterministic simulation: seeded cooperative scheduler over real threads (writer vs snapshot readers), history check with global event numbers",
   text="One writer (commits, abandoned transactions, compaction, index creation) and 1-3 readers that take snapshots and re-read them repeatedly, including long-lived ones; every lock acquisition, atomic access and I/O step is a seeded scheduling decision (random with varying switch probability, PCT). Each snapshot must equal exactly one model state between the operations acknowledged before and begun before its creation, and never change afterwards.", ref="§3 C03"),
 "C04": dict(cat="exploration", tech="deterministic simulation: model-based lifecycle histories (reopen events) on the simulated disk, fault-free configuration",
   text="Seeded L1 histories with close()/drop/reopen events at arbitrary positions (mixed with compaction, index creation, abandoned transactions); a full dump through every read interface is compared with the reference model before and after each reopen, later discrepancies are attributed by re-running the twin history without the events.", ref="§3 C04"),
 "C05": dict(cat="exploration", tech="deterministic simulation: model-based lifecycle histories (compaction/checkpoint events), fault-free configuration",
   text="Seeded L1 histories with compact()/checkpoint() at arbitrary positions, up to 120 operations with repeated overwrites; dump == model before and after every compaction, every later read must succeed (panics are caught and attributed), delayed effects attributed via the twin history without compactions.", ref="§3 C05"),
 "C06": dict(cat="exploration", tech="deterministic simulation baseline: op-by-op comparison of every read interface with the reference model (no fault, no event)",
   text="Baseline configuration of the simulator: random multi-transaction write histories, full dump (nodes, out/in neighbours with multiplicity, typed neighbours, single-key and whole-map property reads, labels, external ids) compared with the model after every commit. It is the unrelaxed oracle that all fault-injecting configurations relax.", ref="§3 C06"),
 "C07": dict(cat="exploration", tech="deterministic simulation: cancellation fault (transaction abandoned at an arbitrary operation), model comparison incl. reopen",
   text="Transactions abandoned (dropped) after a PRNG-chosen prefix containing every write kind, and transactions whose commit is arranged to fail (one value above the log-record limit); dump, index lookups and vector search must equal the model without the abandoned transaction immediately, after further commits and after reopen.", ref="§3 C07"),
 "C08": dict(cat="fault_enumeration", tech="deterministic simulation with fault injection: injected I/O errors (EIO / partial write / ENOSPC / failed fsync) at every I/O step of each commit, compaction, index creation and close",
   text="Every I/O step inside every target operation of a generated history is failed once per error kind in a fresh deterministic re-execution; the failed operation must be invisible in the process, later transactions must be accepted, visible and durable, after reopen the failed transaction is wholly present or wholly absent, open succeeds and a further commit survives another reopen.", ref="§3 C08"),
 "C09": dict(cat="exploration", tech="deterministic simulation: seeded cooperative scheduler over real threads calling the C API auto-commit entry point",
   text="2-4 client threads issue read-modify-write increments, conditional creates (MERGE) and copy statements on shared nodes through ndb_execute_write under seeded schedules; final counters must equal the number of acknowledged increments and each merged key must exist exactly once.", ref="§3 C09"),
 "C10": dict(cat="exploration", tech="deterministic simulation: two engine handles sharing only the simulated directory (same process, a second OS process, or two simulated threads under the seeded scheduler), seeded interleaving of their open/commit/compact/close actions",
   text="PRNG-chosen interleavings of two handles on one path, at action granularity (second handle in the same or in a child process) and at I/O-step granularity (owner commits on one simulated thread while another repeatedly tries to open; afterwards every acknowledged commit must be intact); a second open while the first handle is open must be refused (or wait); the replay of a violation closes both, reopens and reports lost acknowledged commits.", ref="§3 C10"),
 "C13": dict(cat="exploration", tech="deterministic simulation: statement-level fault (evaluation fails at an arbitrary row of a multi-row statement) in auto-commit mode and inside explicit C API transactions, model comparison after every operation",
   text="Generated C API sessions from a template grammar with a model function per template; multi-row statements fail at a PRNG-chosen row (type error, refused delete); statements that returned an error must have no effect immediately, after commit of the surrounding transaction and after reopen. Attribution by the twin history without the failed statements.", ref="§3 C13"),
 "C14": dict(cat="exploration", tech="deterministic simulation: invariant monitor in every configuration + statement-level create/delete histories through the C API",
   text="(1) every dump in every configuration checks that each relationship returned in either direction connects two existing nodes and that the outgoing and incoming views agree; (2) C API sessions with create-then-(DETACH )DELETE in one statement sequence, one transaction and after commit, some with a compaction in between (relationships sitting in a compacted segment when an endpoint is deleted): a delete of a connected node must fail, traversals from both endpoints must agree.", ref="§3 C14"),
 "C15": dict(cat="exploration", tech="deterministic simulation: twin-database histories (with / without create_index events) on the simulated substrate, equality lookups after every lifecycle event",
   text="One generated history runs on two databases, one with the index events; after every commit, abandoned transaction, compaction and reopen, `MATCH (n:L) WHERE n.p = v` and `MATCH (n:L {p: v})` for every indexed pair and every value of an adversarial universe must return identical ids on both.", ref="§3 C15"),
 "C17": dict(cat="fault_enumeration", tech="deterministic simulation with fault injection: stored-byte faults on the log tail (every truncation offset, zero/random/length-field/oversize tails, unfinished transaction, bit flips) followed by write + reopen rounds",
   text="Every truncation offset inside the last transaction (and every stride-th of the rest of the tail region) plus appended garbage tails and bit flips; each mutated log is opened, dumped against the state after the last completely written transaction, written to again and reopened twice.", ref="§3 C17"),
 "C18": dict(cat="exploration", tech="deterministic simulation: page-ownership monitor on the disk seam (which structure allocates / claims / writes each page) over fault-free growth histories at scale, plus reopen dump",
   text="Histories that create hundreds to thousands of nodes in batches interleaved with compaction, index creation, property, relationship and vector writes; every page event is attributed to a structure and a claim or write of a page owned by another structure is a violation at that instant; dump == model after reopen.", ref="§3 C18"),
 "C24": dict(cat="exploration", tech="deterministic simulation: explicit-transaction histories through the C API, transaction-local reference model, attribution by splitting transactions into auto-commit statements",
   text="Sessions with 80% multi-statement explicit transactions whose later statements read, update, merge or delete what earlier ones wrote (while finding F23 is open: statements on disjoint nodes, plus repeated blind property writes on one node); the model applies each statement to the transaction-local state and the dump after commit must equal it.", ref="§3 C24"),
 "C28": dict(cat="exploration", tech="deterministic simulation: model-based lifecycle histories (vacuum events) on the simulated disk",
   text="vacuum(path) on a closed database as a lifecycle event inside L1 histories, followed by open, dump, more writes, reopen, dump; vacuum must succeed and all dumps equal the model.", ref="§3 C28"),

 "C29": dict(cat="exploration", tech="deterministic simulation: seeded cooperative scheduler (backup thread vs writer thread, backup file operations are scheduling points) + restore and model comparison",
   text="nervusdb::backup runs concurrently with a generated writer history that may end in the close-time log rewrite, on a database that a pre-thread prefix may already have compacted (and, separately, quiescently); the restored copy must open and equal one model state between the operations acknowledged before the backup began and those begun before it returned.", ref="§3 C29"),
 "C31": dict(cat="exploration", tech="deterministic simulation: HNSW level randomness from the simulator's PRNG stream (one seed = one index shape), reopen events, brute-force oracle",
   text="Vector-heavy L1 histories (ties, duplicates, re-insertion, deletions, a bulk configuration with hundreds of vectors so that the persistent trees split) with close/drop + reopen; results are checked for soundness (count, distinctness, existing nodes with vectors, exact bit-equal distances, order), for exactness when the index holds at most 2m+1 vectors (m=2), and for equality before and after reopen.", ref="§3 C31"),
 "C32": dict(cat="exploration", tech="deterministic simulation: simulated wall clock (stalled / coarse / backwards-stepping regimes) behind the node-id allocation sites, create-heavy C API sessions",
   text="Create-heavy sessions (CREATE, UNWIND..CREATE of up to 20 nodes, MERGE creates, deletes, compaction, reopen, explicit transactions mixing creating statements with statements that fail and are rolled back to their savepoint) under per-run clock regimes; no create may fail, identities must be pairwise distinct, never reused and stable across compaction and reopen.", ref="§3 C32"),
 "C33": dict(cat="exploration", tech="deterministic simulation: simulated monotonic clock whose deadline crossing is swept over every clock read of the query, plus PRNG-chosen row/collection limits; comparison with the unlimited result",
   text="14 query shapes with large intermediates on generated graphs run unlimited, under random limit sets and under a soft timeout that expires at the i-th clock read for every i; each outcome must be the complete result or a resource-limit error, and the query must stop within 64 further clock reads once the deadline is observable (a watchdog on the simulated clock catches queries that never stop).", ref="§3 C33"),
 "C35": dict(cat="exploration", tech="deterministic simulation: seeded cooperative scheduler with exact all-threads-blocked detection and a writer-preferring RwLock model, lock-order graph as evidence",
   text="2-5 threads with PRNG mixes of transactions, compaction, index creation, snapshot reads, index lookups, statistics reads, vector insertion/search (inside transactions and through the direct entry point), indexed property writes, close-time checkpoint and new-label creation; a violation is the exact deadlock condition (every unfinished thread parked on a lock) or no completion within the step cap; the observed lock-order graph with gate locks is reported in the evidence.", ref="§3 C35"),
}

def head(repo):
    return subprocess.check_output(["git","-C",repo,"log","--format=%h %s"], text=True).splitlines()

def main():
    hooks = [l.split()[0] for l in head("/repo") if l.split(" ",1)[1].startswith("verif hook")]
    checks = []
    for pid, c in sorted(CHECKS.items()):
        checks.append({
          "property_id": pid,
          "quick_cmd": f"./check {pid} quick",
          "thorough_cmd": f"./check {pid} thorough",
          "evidence_file": f"/verif/evidence/{pid}.json",
          "replay_cmd_template": f"./check {pid} --replay {{path}}",
          "engine": "nervus-sim",
          "level_claimed": {"category": c["cat"], "text": c["text"], "design_ref": "DESIGN.md " + c["ref"]},
          "level_note": COMMON_NOTE,
          "technique": c["tech"],
        })
    props = [json.loads(l)["id"] for l in open("/verif/properties.jsonl")]
    na = []
    for p in props:
        if p in CHECKS: continue
        reason = NA.get(p, "check not built yet in this tree (planned with this technique, see DESIGN.md §3); not claimed until it runs")
        na.append({"property_id": p, "reason": reason})
    m = {
      "version": 1,
      "setup_cmd": "./check build",
      "hooks": {
        "guard": "nervusdb_verif",
        "enable": "RUSTFLAGS=--cfg nervusdb_verif via /verif/sim/.cargo/config.toml; the simulator path-depends on the crates in /repo",
        "baseline_off_cmd": "cd /repo && cargo nextest run --workspace --no-fail-fast --test-threads 8 --offline || cargo test --workspace --no-fail-fast --offline",
        "source_commits": hooks,
        "add_only": True,
      },
      "engines": [{"name": "nervus-sim", "path": "/verif/sim", "serves_properties": sorted(CHECKS), "kind_free_text": "deterministic simulator: I/O journal + crash-image builder + fault injector, cooperative seeded scheduler, simulated clocks/PRNG, reference model and dump, ddmin replay minimiser"}],
      "checks": checks,
      "not_applicable": na,
      "notes": "Known findings and fixed defects: /verif/known_findings.json (replay files under /verif/findings). Every check: exit 0 held / 1 VIOLATION / 2 harness error. VERIF_SEED selects the master seed (default fixed).",
    }
    json.dump(m, open("/verif/MANIFEST.json","w"), indent=1)
    print("checks:", len(checks), "not_applicable:", len(na), "hooks:", hooks)

main()
